/-
C18 — value text formats round-trip.

`C18_sdl`: for every value of the domain (any nesting, empty and adjacent containers), every indent
mode (< 0, = 0, > 0), every nesting depth and every map order, parsing the SDL text the writer
produces gives back the value — proved continuation-style: the reader, started on the written text
followed by any continuation that begins with a follower character, returns the value and stops
exactly at the continuation.  The string layer is `unescape ∘ escape = id` over the regenerated
tables; float text is a parameter (`FloatOK`).
-/
import Ggql.Proofs.ValueRead
namespace Ggql.ValueText

variable {F : Type}

mutual
/-- the domain of the property: int64 integers, enum symbols that are names other than
`true`/`false`/`null`, named variables, string-keyed maps whose keys are names (D22 excludes the rest) -/
def Value.WF : Value F → Prop
  | .int n => -9223372036854775808 ≤ n ∧ n < 9223372036854775808
  | .sym s => s ≠ [] ∧ (∀ c ∈ s, isToken stdTbl c = true) ∧ (∀ c r, s = c :: r → isDigit c = false) ∧
      s ≠ "true".toList ∧ s ≠ "false".toList ∧ s ≠ "null".toList
  | .var s => s ≠ [] ∧ (∀ c ∈ s, isToken stdTbl c = true)
  | .list xs => WFs xs
  | .map kvs => WFm kvs
  | _ => True
def WFs : List (Value F) → Prop
  | [] => True
  | x :: xs => x.WF ∧ WFs xs
def WFm : List (List Char × Value F) → Prop
  | [] => True
  | (k, v) :: rest => (k ≠ [] ∧ (∀ c ∈ k, isToken stdTbl c = true)) ∧ v.WF ∧ WFm rest
end

mutual
/-- fuel the reader needs -/
def sz : Value F → Nat
  | .list xs => szs xs + 1
  | .map kvs => szm kvs + 1
  | _ => 1
def szs : List (Value F) → Nat
  | [] => 1
  | x :: xs => max (sz x) (szs xs) + 1
def szm : List (List Char × Value F) → Nat
  | [] => 1
  | (_, v) :: rest => max (sz v) (szm rest) + 1
end

theorem sz_pos (v : Value F) : 1 ≤ sz v := by cases v <;> simp [sz]

/-- the newline the writer appends after a top-level collection when indenting -/
def trail (d : Nat) (indent : Int) (v : Value F) : List Char :=
  if v.isCollection = true ∧ 0 < indent ∧ d = 0 then ['\n'] else []

def closer (indent : Int) (d : Nat) (c : Char) : List Char :=
  (if 0 < indent then '\n' :: spaces (d * indent.toNat) else []) ++ [c]

variable (ft : FloatText F)

theorem spaces_sep (n : Nat) : ∀ x ∈ spaces n, isSepChar x = true := by
  intro x hx; simp only [spaces, List.mem_replicate] at hx; rw [hx.2]; decide

theorem indent_sep (indent : Int) (d : Nat) :
    ∀ x ∈ (if 0 < indent then '\n' :: spaces (d * indent.toNat) else []), isSepChar x = true := by
  intro x hx
  split at hx
  · simp only [List.mem_cons] at hx
    rcases hx with rfl | hx
    · decide
    · exact spaces_sep _ x hx
  · simp at hx

theorem elementSep_sep (indent : Int) (v : Value F) : ∀ x ∈ elementSep true indent v, isSepChar x = true := by
  intro x hx
  simp only [elementSep, if_true] at hx
  split at hx
  · simp only [List.mem_cons, List.mem_nil_iff, or_false] at hx; rcases hx with rfl | rfl <;> decide
  · split at hx
    · simp at hx
    · split at hx
      · simp at hx
      · simp only [List.mem_cons, List.mem_nil_iff, or_false] at hx; subst hx; decide

/-- first character of a written value -/
theorem writeValue_head (hft : FloatOK ft) (d : Nat) (indent : Int) (v : Value F) (hwf : v.WF) :
    ∃ c r, writeValue stdTbl ft true d indent v = c :: r ∧ starter c ∧ c ≠ ']' ∧ c ≠ '}' ∧
      (v.isCollection = true → follower c = true) := by
  cases v with
  | null => exact ⟨'n', _, rfl, ⟨by decide +kernel, by decide⟩, by decide, by decide, by simp [Value.isCollection]⟩
  | bool b =>
    cases b
    · exact ⟨'f', _, rfl, ⟨by decide +kernel, by decide⟩, by decide, by decide, by simp [Value.isCollection]⟩
    · exact ⟨'t', _, rfl, ⟨by decide +kernel, by decide⟩, by decide, by decide, by simp [Value.isCollection]⟩
  | int n =>
    obtain ⟨c, r, h, hc⟩ := intText_head n
    obtain ⟨hst, _, _⟩ := digit_starter c hc
    refine ⟨c, r, by simp [writeValue, h], hst, ?_, ?_, by simp [Value.isCollection]⟩
    · rcases hc with rfl | hc
      · decide
      · intro h; subst h; simp [isDigit] at hc
    · rcases hc with rfl | hc
      · decide
      · intro h; subst h; simp [isDigit] at hc
  | float x =>
    obtain ⟨c, r, h, hc⟩ := hft.head x
    obtain ⟨hst, _, _⟩ := digit_starter c hc
    refine ⟨c, r, by simp [writeValue, h], hst, ?_, ?_, by simp [Value.isCollection]⟩
    · rcases hc with rfl | hc
      · decide
      · intro h; subst h; simp [isDigit] at hc
    · rcases hc with rfl | hc
      · decide
      · intro h; subst h; simp [isDigit] at hc
  | str s =>
    exact ⟨'"', _, rfl, ⟨by decide +kernel, by decide⟩, by decide, by decide, by simp [Value.isCollection]⟩
  | sym s =>
    obtain ⟨hne, htok, _⟩ := hwf
    cases s with
    | nil => exact absurd rfl hne
    | cons c r =>
      have hct := htok c (List.mem_cons_self ..)
      have hst := token_starter c hct
      have hraw : writeValue stdTbl ft true d indent (.sym (c :: r)) = c :: r := by
        simp [writeValue, writeString, flatMap_escape_tokens (c :: r) htok]
      refine ⟨c, r, hraw, hst, ?_, ?_, by simp [Value.isCollection]⟩
      · intro h; subst h; revert hct; decide +kernel
      · intro h; subst h; revert hct; decide +kernel
  | var s =>
    have : escapeChar stdTbl '$' = ['$'] := by decide +kernel
    have hw : writeValue stdTbl ft true d indent (.var s) = '$' :: s.flatMap (escapeChar stdTbl) := by
      simp [writeValue, writeString, this]
    exact ⟨'$', _, hw, ⟨by decide +kernel, by decide⟩, by decide, by decide, by simp [Value.isCollection]⟩
  | list xs =>
    exact ⟨'[', _, by rw [writeValue]; rfl, ⟨by decide +kernel, by decide⟩, by decide, by decide, fun _ => by decide⟩
  | map kvs =>
    exact ⟨'{', _, by rw [writeValue]; rfl, ⟨by decide +kernel, by decide⟩, by decide, by decide, fun _ => by decide⟩

theorem foll_of_head (txt k : List Char) (c : Char) (r : List Char) (h : txt = c :: r) (hc : follower c = true) : Foll (txt ++ k) := by
  intro x y hxy; rw [h] at hxy; simp only [List.cons_append, List.cons.injEq] at hxy; rw [← hxy.1]; exact hc

theorem closer_foll (indent : Int) (d : Nat) (c : Char) (hc : follower c = true) (k : List Char) : Foll (closer indent d c ++ k) := by
  unfold closer
  split
  · exact foll_of_head _ k '\n' _ rfl (by decide)
  · exact foll_of_head _ k c [] rfl hc

/-- what follows an atom element of a list is a follower -/
theorem elems_foll (hft : FloatOK ft) (d2 : Nat) (indent : Int) (rest : List (Value F)) (hwf : WFs rest) (k : List Char) :
    Foll (writeElems stdTbl ft true d2 indent false rest ++ (closer indent (d2 - 1) ']' ++ k)) := by
  cases rest with
  | nil => simpa [writeElems] using closer_foll indent (d2 - 1) ']' (by decide) k
  | cons y ys =>
    obtain ⟨c, r, hy, _, _, _, hcol⟩ := writeValue_head ft hft d2 indent y hwf.1
    simp only [writeElems, Bool.false_eq_true, if_false, List.append_assoc]
    by_cases h0 : indent = 0
    · subst h0
      have : elementSep true (0 : Int) y = [',', ' '] := by simp [elementSep]
      rw [this]; exact foll_of_head _ _ ',' _ rfl (by decide)
    · by_cases hpos : 0 < indent
      · have : elementSep true indent y = [] := by simp [elementSep, h0, hpos]
        rw [this]; simp only [List.nil_append, hpos, if_true, List.cons_append]
        exact foll_of_head _ _ '\n' _ rfl (by decide)
      · have hneg : ¬ (0 < indent) := hpos
        by_cases hyc : y.isCollection = true
        · have : elementSep true indent y = [] := by simp [elementSep, h0, hpos, hyc]
          rw [this, hy]; simp only [List.nil_append, hneg, if_false, List.cons_append]
          exact foll_of_head _ _ c _ rfl (hcol hyc)
        · have hyc' : y.isCollection = false := by simpa using hyc
          have : elementSep true indent y = [','] := by simp [elementSep, h0, hpos, hyc']
          rw [this]; exact foll_of_head _ _ ',' _ rfl (by decide)

/-- what follows an atom member value of a map is a follower -/
theorem members_foll (d2 : Nat) (indent : Int) (rest : List (List Char × Value F)) (k : List Char) :
    Foll (writeMembers stdTbl ft true d2 indent false rest ++ (closer indent (d2 - 1) '}' ++ k)) := by
  cases rest with
  | nil => simpa [writeMembers] using closer_foll indent (d2 - 1) '}' (by decide) k
  | cons kv ys =>
    obtain ⟨key, y⟩ := kv
    simp only [writeMembers, Bool.not_true, Bool.false_or, Bool.not_false, Bool.and_true, List.append_assoc]
    by_cases hle : indent ≤ 0
    · simp only [hle, decide_true, if_true, List.cons_append]
      exact foll_of_head _ _ ',' _ rfl (by decide)
    · have hpos : 0 < indent := by omega
      simp only [hle, decide_false, Bool.false_eq_true, if_false, List.nil_append, hpos, if_true, List.cons_append]
      exact foll_of_head _ _ '\n' _ rfl (by decide)

theorem fuel_succ (n : Nat) (h : 1 ≤ n) : ∃ f, n = f + 1 := ⟨n - 1, by omega⟩

theorem trail_atom (d : Nat) (indent : Int) (v : Value F) (h : v.isCollection = false) : trail d indent v = [] := by
  simp [trail, h]

theorem word_head (w : List Char) (c0 : Char) (r0 : List Char) (hw : w = c0 :: r0) (hd : isDigit c0 = false) :
    ∀ c r, w = c :: r → isDigit c = false := by
  intro c r h; rw [hw] at h; injection h with h1 _; rw [← h1]; exact hd

mutual
/-- the reader, started on separators, then the written value, then a continuation, returns the value
and stops at the continuation -/
theorem rt_value (hft : FloatOK ft) (v : Value F) (hwf : v.WF) (d : Nat) (indent : Int) (ws k : List Char) (fuel : Nat)
    (hws : ∀ x ∈ ws, isSepChar x = true) (hk : v.isCollection = false → Foll k) (hf : sz v ≤ fuel) :
    readValue stdTbl ft fuel (ws ++ writeValue stdTbl ft true d indent v ++ k) = some (v, trail d indent v ++ k) := by
  obtain ⟨f, rfl⟩ := fuel_succ fuel (Nat.le_trans (sz_pos v) hf)
  obtain ⟨c, r, hhead, hst, _, _, _⟩ := writeValue_head ft hft d indent v hwf
  have hskip : readValue stdTbl ft (f + 1) (ws ++ writeValue stdTbl ft true d indent v ++ k) =
      readValue stdTbl ft (f + 1) (writeValue stdTbl ft true d indent v ++ k) := by
    rw [hhead, List.append_assoc, List.cons_append, readValue_skip ft f ws c (r ++ k) hws hst]
  rw [hskip]
  match v, hwf with
  | .null, _ =>
    have := readValue_token ft f "null".toList k (by decide) (by decide +kernel) (word_head _ 'n' _ rfl (by decide)) (hk rfl)
    rw [trail_atom d indent .null rfl, List.nil_append]
    simp only [writeValue]
    rw [this]
    simp only [show "null".toList ≠ "true".toList by decide, show "null".toList ≠ "false".toList by decide, if_false, if_true]
  | .bool true, _ =>
    have := readValue_token ft f "true".toList k (by decide) (by decide +kernel) (word_head _ 't' _ rfl (by decide)) (hk rfl)
    rw [trail_atom d indent (.bool true) rfl, List.nil_append]
    simp only [writeValue, if_true]
    rw [this]
    simp only [if_true]
  | .bool false, _ =>
    have := readValue_token ft f "false".toList k (by decide) (by decide +kernel) (word_head _ 'f' _ rfl (by decide)) (hk rfl)
    rw [trail_atom d indent (.bool false) rfl, List.nil_append]
    simp only [writeValue, Bool.false_eq_true, if_false]
    rw [this]
    simp only [show "false".toList ≠ "true".toList by decide, if_false, if_true]
  | .int n, hn =>
    rw [trail_atom d indent (.int n) rfl, List.nil_append]
    simp only [writeValue]
    exact readValue_number ft f (intText n) k (.int n) (intText_head n) (intText_all_num n) (hk rfl)
      (by rw [parseInt64_intText n hn.1 hn.2])
  | .float x, _ =>
    rw [trail_atom d indent (.float x) rfl, List.nil_append]
    simp only [writeValue]
    exact readValue_number ft f (ft.fmt x) k (.float x) (hft.head x) (hft.all_num x) (hk rfl)
      (by rw [hft.not_int x, hft.parse_fmt x])
  | .str s, _ =>
    rw [trail_atom d indent (.str s) rfl, List.nil_append]
    simp only [writeValue]
    exact readValue_string ft f s k (hk rfl)
  | .sym s, hs =>
    obtain ⟨hne, htok, hdig, h1, h2, h3⟩ := hs
    have hraw : writeValue stdTbl ft true d indent (.sym s) = s := by
      simp [writeValue, writeString, flatMap_escape_tokens s htok]
    rw [hraw, trail_atom d indent (.sym s) rfl, List.nil_append, readValue_token ft f s k hne htok hdig (hk rfl)]
    simp only [h1, h2, h3, if_false]
  | .var s, hs =>
    obtain ⟨hne, htok⟩ := hs
    have hd : escapeChar stdTbl '$' = ['$'] := by decide +kernel
    have hraw : writeValue stdTbl ft true d indent (.var s) = '$' :: s := by
      simp [writeValue, writeString, hd, flatMap_escape_tokens s htok]
    rw [hraw, trail_atom d indent (.var s) rfl, List.nil_append]
    exact readValue_var ft f s k hne htok (hk rfl)
  | .list xs, hxs =>
    have hw : writeValue stdTbl ft true d indent (.list xs) ++ k =
        '[' :: (writeElems stdTbl ft true (d + 1) indent true xs ++ (closer indent (d + 1 - 1) ']' ++ (trail d indent (.list xs) ++ k))) := by
      rw [writeValue]; simp [closer, trail, Value.isCollection]
    rw [hw, readValue_starter ft f '[' _ ⟨by decide +kernel, by decide⟩]
    simp only [show ('[' : Char) ≠ '"' by decide, show ('[' : Char) ≠ '$' by decide, if_false,
      show (decide (('[' : Char) = '-') || isDigit '[') = false by decide, Bool.false_eq_true, if_true]
    have hfl : szs xs ≤ f := by simp only [sz] at hf; omega
    have := rt_elems hft xs hxs (d + 1) (by omega) indent true [] (trail d indent (.list xs) ++ k) f hfl
    simpa using this
  | .map kvs, hkvs =>
    have hw : writeValue stdTbl ft true d indent (.map kvs) ++ k =
        '{' :: (writeMembers stdTbl ft true (d + 1) indent true kvs ++ (closer indent (d + 1 - 1) '}' ++ (trail d indent (.map kvs) ++ k))) := by
      rw [writeValue]; simp [closer, trail, Value.isCollection]
    rw [hw, readValue_starter ft f '{' _ ⟨by decide +kernel, by decide⟩]
    simp only [show ('{' : Char) ≠ '"' by decide, show ('{' : Char) ≠ '$' by decide, show ('{' : Char) ≠ '[' by decide, if_false,
      show (decide (('{' : Char) = '-') || isDigit '{') = false by decide, Bool.false_eq_true, if_true]
    have hfl : szm kvs ≤ f := by simp only [sz] at hf; omega
    have := rt_members hft kvs hkvs (d + 1) (by omega) indent true [] (trail d indent (.map kvs) ++ k) f hfl
    simpa using this

theorem rt_elems (hft : FloatOK ft) (xs : List (Value F)) (hwf : WFs xs) (d2 : Nat) (hd2 : 1 ≤ d2) (indent : Int) (noSep : Bool)
    (acc : List (Value F)) (k : List Char) (fuel : Nat) (hf : szs xs ≤ fuel) :
    readList stdTbl ft fuel (writeElems stdTbl ft true d2 indent noSep xs ++ (closer indent (d2 - 1) ']' ++ k)) acc =
      some (.list (acc.reverse ++ xs), k) := by
  match xs, hwf with
  | [], _ =>
    obtain ⟨f, rfl⟩ := fuel_succ fuel (by simp only [szs] at hf; omega)
    simp only [writeElems, List.nil_append, closer, List.append_assoc, List.singleton_append, List.append_nil]
    exact readList_close ft f _ k acc (indent_sep indent (d2 - 1))
  | x :: rest, hxr =>
    obtain ⟨hx, hrest⟩ := hxr
    obtain ⟨f, rfl⟩ := fuel_succ fuel (by simp only [szs] at hf; omega)
    have hfx : sz x ≤ f := by simp only [szs] at hf; omega
    have hfr : szs rest ≤ f := by simp only [szs] at hf; omega
    obtain ⟨c, r, hhead, hst, hnb, _, _⟩ := writeValue_head ft hft d2 indent x hx
    -- separators and indentation in front of the element
    have hwsl : ∀ y ∈ (if noSep then [] else elementSep true indent x) ++ (if 0 < indent then '\n' :: spaces (d2 * indent.toNat) else []),
        isSepChar y = true := by
      intro y hy
      simp only [List.mem_append] at hy
      rcases hy with hy | hy
      · split at hy
        · simp at hy
        · exact elementSep_sep indent x y hy
      · exact indent_sep indent d2 y hy
    obtain ⟨k', hk'⟩ : ∃ k', k' = writeElems stdTbl ft true d2 indent (decide (indent < 0) && true && x.isCollection) rest ++ (closer indent (d2 - 1) ']' ++ k) := ⟨_, rfl⟩
    have htxt : writeElems stdTbl ft true d2 indent noSep (x :: rest) ++ (closer indent (d2 - 1) ']' ++ k) =
        ((if noSep then [] else elementSep true indent x) ++ (if 0 < indent then '\n' :: spaces (d2 * indent.toNat) else [])) ++ c :: (r ++ k') := by
      rw [writeElems, hhead, hk']; simp [List.append_assoc]
    rw [htxt, readList_elem ft f _ c (r ++ k') acc hwsl hst hnb]
    -- the element itself
    have hfoll : x.isCollection = false → Foll k' := by
      intro hxa
      rw [hk', hxa]
      simpa using elems_foll ft hft d2 indent rest hrest k
    have hv := rt_value hft x hx d2 indent [] k' f (by simp) hfoll hfx
    have htr : trail d2 indent x = [] := by simp [trail]; intro _ _; omega
    rw [List.nil_append, hhead, htr, List.nil_append, List.cons_append] at hv
    rw [hv]
    simp only
    have := rt_elems hft rest hrest d2 hd2 indent (decide (indent < 0) && true && x.isCollection) (x :: acc) k f hfr
    rw [hk', this]; simp

theorem rt_members (hft : FloatOK ft) (kvs : List (List Char × Value F)) (hwf : WFm kvs) (d2 : Nat) (hd2 : 1 ≤ d2) (indent : Int)
    (noSep : Bool) (acc : List (List Char × Value F)) (k : List Char) (fuel : Nat) (hf : szm kvs ≤ fuel) :
    readMembers stdTbl ft fuel (writeMembers stdTbl ft true d2 indent noSep kvs ++ (closer indent (d2 - 1) '}' ++ k)) acc =
      some (.map (acc.reverse ++ kvs), k) := by
  match kvs, hwf with
  | [], _ =>
    obtain ⟨f, rfl⟩ := fuel_succ fuel (by simp only [szm] at hf; omega)
    simp only [writeMembers, List.nil_append, closer, List.append_assoc, List.singleton_append, List.append_nil]
    exact readMembers_close ft f _ k acc (indent_sep indent (d2 - 1))
  | (key, v) :: rest, hkr =>
    obtain ⟨⟨hkne, hktok⟩, hv, hrest⟩ := hkr
    obtain ⟨f, rfl⟩ := fuel_succ fuel (by simp only [szm] at hf; omega)
    have hfv : sz v ≤ f := by simp only [szm] at hf; omega
    have hfr : szm rest ≤ f := by simp only [szm] at hf; omega
    obtain ⟨k', hk'⟩ : ∃ k', k' = writeMembers stdTbl ft true d2 indent (decide (indent < 0) && true && v.isCollection) rest ++ (closer indent (d2 - 1) '}' ++ k) := ⟨_, rfl⟩
    obtain ⟨ws, hwsdef⟩ : ∃ ws, ws = (if (!true || decide (indent ≤ 0)) && !noSep then (',' :: (if indent = 0 then [' '] else [])) else []) ++
        (if 0 < indent then '\n' :: spaces (d2 * indent.toNat) else []) := ⟨_, rfl⟩
    have hwsl : ∀ y ∈ ws, isSepChar y = true := by
      intro y hy
      rw [hwsdef] at hy
      simp only [List.mem_append] at hy
      rcases hy with hy | hy
      · split at hy
        · simp only [List.mem_cons] at hy
          rcases hy with rfl | hy
          · decide
          · split at hy
            · simp only [List.mem_cons, List.mem_nil_iff, or_false] at hy; subst hy; decide
            · simp at hy
        · simp at hy
      · exact indent_sep indent d2 y hy
    have htxt : writeMembers stdTbl ft true d2 indent noSep ((key, v) :: rest) ++ (closer indent (d2 - 1) '}' ++ k) =
        ws ++ key ++ ':' :: ((if 0 ≤ indent then [' '] else []) ++ writeValue stdTbl ft true d2 indent v ++ k') := by
      rw [writeMembers, hk', hwsdef]; simp [List.append_assoc]
    rw [htxt, readMembers_member ft f ws key _ acc hwsl hkne hktok]
    have hfoll : v.isCollection = false → Foll k' := by
      intro hva
      rw [hk', hva]
      simpa using members_foll ft d2 indent rest k
    have hsp : ∀ y ∈ (if 0 ≤ indent then [' '] else []), isSepChar y = true := by
      intro y hy; split at hy
      · simp only [List.mem_cons, List.mem_nil_iff, or_false] at hy; subst hy; decide
      · simp at hy
    have hvv := rt_value hft v hv d2 indent _ k' f hsp hfoll hfv
    have htr : trail d2 indent v = [] := by simp [trail]; intro _ _; omega
    rw [htr, List.nil_append] at hvv
    rw [hvv]
    simp only
    have := rt_members hft rest hrest d2 hd2 indent (decide (indent < 0) && true && v.isCollection) ((key, v) :: acc) k f hfr
    rw [hk', this]; simp
end

end Ggql.ValueText

namespace Ggql.ValueText
variable {F : Type} (ft : FloatText F)

/-- **C18_sdl.**  For every value of the domain, every indent mode and every map order: parsing the
SDL text the writer produces gives back an equal value and consumes the whole text (up to the newline
the writer itself appends after an indented top-level collection). -/
theorem C18_sdl (hft : FloatOK ft) (v : Value F) (hwf : v.WF) (indent : Int) :
    readValue stdTbl ft (sz v) (writeSDL stdTbl ft indent v) = some (v, trail 0 indent v) := by
  have := rt_value ft hft v hwf 0 indent [] [] (sz v) (by simp) (fun _ => by intro c r h; simp at h) (Nat.le_refl _)
  simpa [writeSDL] using this

/-- the same at any nesting depth and in any follower context (how values occur inside documents) -/
theorem C18_sdl_in_context (hft : FloatOK ft) (v : Value F) (hwf : v.WF) (d : Nat) (indent : Int) (k : List Char) (hk : Foll k)
    (fuel : Nat) (hf : sz v ≤ fuel) :
    readValue stdTbl ft fuel (writeValue stdTbl ft true d indent v ++ k) = some (v, trail d indent v ++ k) := by
  simpa using rt_value ft hft v hwf d indent [] k fuel (by simp) (fun _ => hk) hf

/-- a toy float text satisfying `FloatOK` (non-vacuity of the hypothesis): floats are the two values
1.5 and -0.25 -/
def toyFloat : FloatText Bool :=
  { fmt := fun b => if b then "1.5".toList else "-0.25".toList
    parse := fun t => if t = "1.5".toList then some true else if t = "-0.25".toList then some false else none }

theorem toyFloat_ok : FloatOK toyFloat := by
  refine ⟨?_, ?_, ?_, ?_⟩
  · intro x; cases x <;> decide
  · intro x; cases x <;> decide +kernel
  · intro x; cases x
    · exact ⟨'-', _, rfl, Or.inl rfl⟩
    · exact ⟨'1', _, rfl, Or.inr (by decide)⟩
  · intro x; cases x <;> decide

/-- non-vacuity: a nested value with adjacent containers, a symbol, a variable, an escaped string and a
float is in the domain; its tight SDL form is what the writer model computes -/
example :
    let v : Value Bool := .map [("a".toList, .list [.int 1, .list [], .map [], .sym "RED".toList, .float true]),
                                ("b_2".toList, .str "q\"\n".toList), ("c".toList, .var "v".toList), ("d".toList, .null)]
    v.WF ∧ writeSDL stdTbl toyFloat (-1) v = "{a:[1[]{}RED,1.5]b_2:\"q\\\"\\n\",c:$v,d:null}".toList := by
  refine ⟨?_, by decide +kernel⟩
  simp only [Value.WF, WFm, WFs, and_true, true_and]
  refine ⟨⟨by decide, by decide +kernel⟩, ⟨by omega, by decide, by decide +kernel, ?_, by decide, by decide, by decide⟩,
    ⟨by decide, by decide +kernel⟩, ⟨by decide, by decide +kernel⟩, ⟨by decide, by decide +kernel⟩, ⟨by decide, by decide +kernel⟩⟩
  intro c r h; injection h with h1 _; rw [← h1]; decide

end Ggql.ValueText
