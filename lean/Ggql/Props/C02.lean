/-
C02 — the resolver strategies give the same response.  Property theorems on the walk model.

The walk reads the data behind the resolvers only through two observations of a node: what a field
*fetch* returns (`fetch g node name`: value and error count) and which object type the node's Go type
is bound to (`goType`).  A resolver strategy is a representation of those two functions (a `Resolve`
method, a map under a root resolver, struct fields and methods found by reflection).
`C02_representation_independent` proves, for every schema, selection set, variable map, depth and
configuration, that two data graphs which agree on `fetch` and `goType` produce the same result map,
the same errors (paths and classes) and the same invocation log — so the response cannot depend on the
strategy, only on what the strategy's fetch returns.  `C02_dispatch` is the precedence clause.
-/
import Ggql.Model.Walk
import Ggql.Model.Dispatch
namespace Ggql.C02
open Ggql.Walk Ggql.Dispatch

def goTypeOf (g : Graph) (node : Nat) : Option String := (g[node]?).map (·.goType)

/-- two graphs the walk cannot tell apart -/
def SameAnswers (g1 g2 : Graph) : Prop :=
  (∀ node name, fetch g1 node name = fetch g2 node name) ∧ (∀ node, goTypeOf g1 node = goTypeOf g2 node)

theorem bindsTo_congr {g1 g2 : Graph} (h : SameAnswers g1 g2) (node : Nat) (m : String) :
    bindsTo g1 node m = bindsTo g2 node m := by
  have := h.2 node
  unfold goTypeOf at this
  unfold bindsTo
  cases h1 : g1[node]? <;> cases h2 : g2[node]? <;> simp_all

theorem complete_congr (s : Schema) {g1 g2 : Graph} (h : SameAnswers g1 g2)
    (k1 k2 : Nat → String → Nat → J × Acc) (hk : ∀ n t d, k1 n t d = k2 n t d) :
    ∀ (t : TRef) (v : DVal) (d : Nat), complete s g1 k1 t v d = complete s g2 k2 t v d := by
  have hkk : k1 = k2 := by funext n t d; exact hk n t d
  subst hkk
  have hb : ∀ node, (fun m => bindsTo g1 node m) = (fun m => bindsTo g2 node m) := by
    intro node; funext m; exact bindsTo_congr h node m
  intro t
  induction t with
  | named n =>
    intro v d
    cases v <;> simp only [complete, hb]
  | list t ih =>
    intro v d
    cases v <;> simp only [complete, ih]
  | nonNull t ih =>
    intro v d
    cases v <;> simp only [complete, ih]

/-- the object type of a node reads the graph through the nodes' Go types only -/
theorem objectTypeOf_congr (env : Env) (g2 : Graph) (h : SameAnswers env.graph g2) (node : Nat) (ty : String) :
    objectTypeOf env node ty = objectTypeOf { env with graph := g2 } node ty := by
  have hg : (env.graph[node]?).map (·.goType) = (g2[node]?).map (·.goType) := h.2 node
  unfold objectTypeOf
  cases h1 : env.graph[node]? <;> cases h2 : g2[node]? <;> simp_all

mutual
theorem rSel_congr (env : Env) (g2 : Graph) (h : SameAnswers env.graph g2) (node : Nat) (ty : String) (d : Nat)
    (res : List (String × J)) : ∀ (s : Sel),
    rSel env node ty d res s = rSel { env with graph := g2 } node ty d res s
  | .field al name args dirs sels => by
    have hf : fetch env.graph node name = fetch g2 node name := h.1 node name
    have hc : ∀ (dt : TRef) t v dd,
        complete env.schema env.graph
          (fun n t d' => if sels.isEmpty = true then ((.obj [] : J), ({ errs := [⟨[], .noSelection⟩] } : Acc))
            else (J.obj (rSels env n (staticTy env dt t) d' [] sels).fst, (rSels env n (staticTy env dt t) d' [] sels).snd)) t v dd =
        complete env.schema g2
          (fun n t d' => if sels.isEmpty = true then ((.obj [] : J), ({ errs := [⟨[], .noSelection⟩] } : Acc))
            else (J.obj (rSels { env with graph := g2 } n (staticTy { env with graph := g2 } dt t) d' [] sels).fst,
                  (rSels { env with graph := g2 } n (staticTy { env with graph := g2 } dt t) d' [] sels).snd)) t v dd := by
      intro dt t v dd
      apply complete_congr env.schema h
      intro n t d'
      have hst : staticTy { env with graph := g2 } dt t = staticTy env dt t := rfl
      simp only [hst, rSels_congr env g2 h n (staticTy env dt t) d' [] sels]
    have htn : typeNameOf env node ty = typeNameOf { env with graph := g2 } node ty := by
      simp only [typeNameOf, objectTypeOf_congr env g2 h node ty]
    simp only [rSel, hf, hc, htn]
  | .inline cond dirs sels sp => by
    have hfa : fragApplies env node ty cond = fragApplies { env with graph := g2 } node ty cond := by
      simp only [fragApplies, objectTypeOf_congr env g2 h node ty]
    have hft : fragTy env ty cond = fragTy { env with graph := g2 } ty cond := rfl
    simp only [rSel, hfa, hft, rSels_congr env g2 h node (fragTy { env with graph := g2 } ty cond) d res sels]

theorem rSels_congr (env : Env) (g2 : Graph) (h : SameAnswers env.graph g2) (node : Nat) (ty : String) (d : Nat)
    (res : List (String × J)) : ∀ (ss : List Sel),
    rSels env node ty d res ss = rSels { env with graph := g2 } node ty d res ss
  | [] => by simp [rSels]
  | s :: rest => by
    simp only [rSels]
    rw [rSel_congr env g2 h node ty d res s]
    rw [rSels_congr env g2 h node ty d _ rest]
end

/-- **C02 (representation independence).**  For every schema, request, variable map and configuration:
two data graphs that give the same answers to `fetch` and bind to the same object types produce the
same response — data, errors (paths and classes) and invocation log. -/
theorem C02_representation_independent (env : Env) (g2 : Graph) (h : SameAnswers env.graph g2)
    (ops : List Op) (opName : String) (rootNode : Nat) (rootTy : String → Option String) :
    (run env ops opName rootNode rootTy).data = (run { env with graph := g2 } ops opName rootNode rootTy).data ∧
    (run env ops opName rootNode rootTy).acc = (run { env with graph := g2 } ops opName rootNode rootTy).acc := by
  unfold run
  simp only
  cases chooseOp env.cfg ops opName with
  | none => exact ⟨rfl, rfl⟩
  | some op =>
    simp only
    cases rootTy op.kind with
    | none => exact ⟨rfl, rfl⟩
    | some ty =>
      simp only
      split
      · exact ⟨rfl, rfl⟩
      · rw [rSels_congr env g2 h]
        exact ⟨rfl, rfl⟩

/-- non-vacuity: a struct-like node with an extra field the request never names and a map-like node
without it give the same answers on the declared fields -/
example : fetch [⟨"T", [("a", { val := .leaf (.int 1) }), ("zz", { val := .nil })]⟩] 0 "a" =
          fetch [⟨"T", [("a", { val := .leaf (.int 1) })]⟩] 0 "a" := by rfl

/-! ### precedence -/

/-- **C02_dispatch.**  With the arms in the order Resolver, AnyResolver, reflection: an object that
implements `Resolver` is always resolved through it; otherwise an installed root resolver is used;
reflection only when neither applies. -/
theorem C02_dispatch (isResolver anyInstalled : Bool) :
    choose [.resolver, .any, .reflect] isResolver anyInstalled =
      if isResolver then .resolver else if anyInstalled then .any else .reflect := by
  cases isResolver <;> cases anyInstalled <;> rfl

/-- the order matters: with the first two arms swapped an installed root resolver would shadow `Resolver` objects -/
theorem C02_dispatch_order_matters : choose [.any, .resolver, .reflect] true true ≠ choose [.resolver, .any, .reflect] true true := by
  decide

end Ggql.C02
