/-
C12 — concurrent requests on one root: race freedom and deadlock freedom at lock-discipline level,
instantiated on the access table regenerated from the Go source on this run.

What is proved: the generic theorems of `Props/Locks.lean` (for all executions, any number of
threads), and — by `decide` on the generated table — their side conditions for ggql.  What is *not*
proved: the Go memory model, the scheduler, that lexical Lock/Unlock pairs are what executes
(trusted: the translator), and response isolation (exercised by the harness: concurrent responses
equal solo responses from a cold root under `-race`).
-/
import Ggql.Props.Locks
import Ggql.Gen.Locks
namespace Ggql.LockTable

/-- the unlocked accesses of the first commit (D26, repaired): `regField` re-read `obj.meta` after releasing
`obj.mu`, while `assureType` writes it under `obj.mu` on every request -/
def d26Sites : List (String × Field × Bool) := [("regField", .objMeta, false)]

/-- **C12_lockset.**  On the source as it is now every request-reachable access to a lazily written cell
holds the cell's mutex, so `lockset_race_free` applies to every execution: D26 is repaired and a return of
an unguarded access breaks this obligation. -/
theorem C12_lockset : unguardedSites Gen.lockTable = [] := by decide

/-- the exemption of `regField`'s `fd.args` write rests on this syntactic fact of the current source -/
theorem C12_args_write_setup_only : Gen.regFieldArgsSetupOnly = true := by decide

/-- every write by a request thread to a lazily initialised cell is made under the cell's mutex -/
theorem C12_writes_guarded :
    ((obligations Gen.lockTable).filter (·.write)).all Access.guarded = true := by decide

/-- **C12_lock_order.**  Every acquisition in the package is made while holding only lower-ranked
mutexes (subLock < FieldDef.mu < Object.mu, may-hold sets propagated through the call graph), so
`lock_order_deadlock_free` applies: no wait-for cycle among any number of request threads. -/
theorem C12_lock_order : Gen.acquireTable.all Acquire.ordered = true := by decide

/-- the rank function satisfies the hypothesis of the generic theorem for any waiter built from a
table row: it waits for `a.mutex` holding at most `a.held` -/
theorem C12_rows_ranked (a : Acquire) (ha : a ∈ Gen.acquireTable) :
    ∀ m ∈ a.held, rank m < rank a.mutex := by
  have h := C12_lock_order
  rw [List.all_eq_true] at h
  have := h a ha
  simpa [Acquire.ordered, List.all_eq_true] using this

/-- non-vacuity: the table is not empty and contains guarded writes of each lazily written cell -/
example : (obligations Gen.lockTable).any (fun a => a.write && a.field == .objMeta && a.guarded) = true ∧
    (obligations Gen.lockTable).any (fun a => a.write && a.field == .fdGoField && a.guarded) = true := by decide

end Ggql.LockTable
