/-
C04 — resolvers only receive conforming arguments: the leaf level.

`C04_arm` / `C04_leaf`: every `CoerceIn` arm that passes the decidable test `armSoundInT` yields, for
every well-formed supplied value, either an error (the resolver is then not invoked) or a value of the
declared scalar's Go kind that denotes what the client wrote — Int within 32 bits and equal to the
supplied number, ID the decimal rendering of a supplied integer.
-/
import Ggql.Props.C05
namespace Ggql.Coerce

variable {F : Type}

macro "coerce_fin_in" : tactic => `(tactic| (simp_all [applyAction, convTo, checkIn, GoVal.kind, Scalar.inKind, armSoundIn,
  GoVal.wf, kindRange, Kind.isInt, Kind.isFloat, fitsIn, intValue, inRange32, inRange64, wrapInt, NumT.kind]))

theorem wrap64_toString (n : Int) (h1 : -9223372036854775808 ≤ n) (h2 : n < 9223372036854775808) :
    toString (Int.bmod n 18446744073709551616) = toString n := by rw [wrap64_id n h1 h2]

theorem parseInt64_inRange (s : String) (i : Int) (h : parseInt64 s = some i) : inRange64 i = true := by
  unfold parseInt64 at h
  cases hr : parseIntRaw s with
  | none => simp [hr] at h
  | some v =>
    simp only [hr] at h
    by_cases hv : inRange64 v = true
    · simp only [hv, if_true, Option.some.injEq] at h; subst h; exact hv
    · simp [hv] at h

theorem C04_arm_failNil (ext : Ext F) (s : Scalar) (v : GoVal F)
    (hs : armSoundIn s v.kind .failNil = true) (hw : v.wf = true) :
    checkIn ext s v (applyAction ext .failNil v) = true := by
  simp [applyAction, checkIn]

theorem C04_arm_asIs (ext : Ext F) (s : Scalar) (v : GoVal F)
    (hs : armSoundIn s v.kind .asIs = true) (hw : v.wf = true) :
    checkIn ext s v (applyAction ext .asIs v) = true := by
  cases v with
  | int k n => cases s <;> cases k <;> (first | (coerce_fin_in; done) | (coerce_fin_in; omega))
  | flt k x => cases s <;> cases k <;> coerce_fin_in
  | _ => cases s <;> coerce_fin_in

theorem C04_arm_conv (ext : Ext F) (s : Scalar) (t : NumT) (v : GoVal F)
    (hs : armSoundIn s v.kind (.conv t) = true) (hw : v.wf = true) :
    checkIn ext s v (applyAction ext (.conv t) v) = true := by
  cases s <;> cases t <;> simp [armSoundIn] at hs
  · have hi : v.kind.isInt = true := by
      cases hk : v.kind <;> simp [hk, fitsIn, kindRange, Kind.isInt] at hs ⊢
    obtain ⟨k, n, rfl, _⟩ := int_of_kind v hi hw
    obtain ⟨h1, h2⟩ := fits32 _ n hs hw
    simp [applyAction, convTo, checkIn, GoVal.kind, Scalar.inKind, wrapInt, wrap32_id n h1 h2, intValue, inRange32, h1, h2]
  · have hi : v.kind.isInt = true := by
      cases hk : v.kind <;> simp [hk, fitsIn, kindRange, Kind.isInt] at hs ⊢
    obtain ⟨k, n, rfl, _⟩ := int_of_kind v hi hw
    obtain ⟨h1, h2⟩ := fits64 _ n hs hw
    simp [applyAction, convTo, checkIn, GoVal.kind, Scalar.inKind, wrapInt, wrap64_id n h1 h2, intValue, inRange64, h1, h2]

theorem C04_arm_convCheckedKeep (ext : Ext F) (laws : ExtLaws ext) (s : Scalar) (t : NumT) (v : GoVal F)
    (hs : armSoundIn s v.kind (.convCheckedKeep t) = true) (hw : v.wf = true) :
    checkIn ext s v (applyAction ext (.convCheckedKeep t) v) = true := by
  simp only [armSoundIn, Bool.and_eq_true, beq_iff_eq] at hs
  obtain ⟨⟨rfl, rfl⟩, hf⟩ := hs
  cases v with
  | flt k x =>
    simp only [applyAction]
    cases hx : ext.toIntExact x with
    | none => simp [checkIn]
    | some n =>
      by_cases hr : inRange32 n = true
      · simp only [hr, beq_self_eq_true, Bool.true_and, Bool.true_or, if_true]
        -- no error: the value handed on must be `n` itself; this is where the model leans on the
        -- runtime law `f2i` = exact value for integral in-range floats
        simp [checkIn, convTo, GoVal.kind, Scalar.inKind, intValue, hx, laws.f2i32_exact x n hx hr, hr]
      · simp [hr, checkIn]
  | int k n =>
    -- the checked narrowing of an integer: an error exactly when it does not fit, else the value itself
    simp only [applyAction]
    by_cases hr : inRange32 n = true
    · have h12 : -2147483648 ≤ n ∧ n < 2147483648 := by simpa [inRange32] using hr
      simp [hr, checkIn, convTo, GoVal.kind, Scalar.inKind, wrapInt, wrap32_id n h12.1 h12.2, intValue, inRange32, h12.1, h12.2]
    · simp [hr, checkIn]
  | _ => simp_all [GoVal.kind, Kind.isFloat, Kind.isInt, kindRange]

theorem C04_arm_fmtInt (ext : Ext F) (s : Scalar) (v : GoVal F)
    (hs : armSoundIn s v.kind .fmtInt = true) (hw : v.wf = true) :
    checkIn ext s v (applyAction ext .fmtInt v) = true := by
  cases v with
  | int k n =>
    cases s <;> cases k <;> (first | (coerce_fin_in; done) | skip)
    all_goals (simp [GoVal.wf, kindRange] at hw; simp [applyAction, checkIn, GoVal.kind, Scalar.inKind, wrapInt]; rw [wrap64_id n (by omega) (by omega)])
  | flt k x => cases s <;> cases k <;> coerce_fin_in
  | _ => cases s <;> coerce_fin_in

theorem C04_arm_parseIntKeep (ext : Ext F) (s : Scalar) (t : NumT) (v : GoVal F)
    (hs : armSoundIn s v.kind (.parseIntKeep t) = true) (hw : v.wf = true) :
    checkIn ext s v (applyAction ext (.parseIntKeep t) v) = true := by
  cases v with
  | str str =>
    cases s <;> cases t <;> simp [armSoundIn] at hs
    simp only [applyAction]
    cases hp : parseInt64 str with
    | none => simp [checkIn]
    | some i =>
      have hr : inRange64 i = true := parseInt64_inRange str i hp
      have h1 : -9223372036854775808 ≤ i ∧ i < 9223372036854775808 := by simpa [inRange64] using hr
      simp [checkIn, GoVal.kind, Scalar.inKind, NumT.kind, wrapInt, wrap64_id i h1.1 h1.2, intValue, hp, hr]
  | int k n => cases s <;> cases k <;> coerce_fin_in
  | flt k x => cases s <;> cases k <;> coerce_fin_in
  | _ => cases s <;> coerce_fin_in

theorem C04_arm_timeOfInt (ext : Ext F) (s : Scalar) (v : GoVal F)
    (hs : armSoundIn s v.kind .timeOfInt = true) (hw : v.wf = true) :
    checkIn ext s v (applyAction ext .timeOfInt v) = true := by
  cases v with
  | int k n => cases s <;> cases k <;> coerce_fin_in
  | flt k x => cases s <;> cases k <;> coerce_fin_in
  | _ => cases s <;> coerce_fin_in

theorem C04_arm_timeOfFloat (ext : Ext F) (s : Scalar) (v : GoVal F)
    (hs : armSoundIn s v.kind .timeOfFloat = true) (hw : v.wf = true) :
    checkIn ext s v (applyAction ext .timeOfFloat v) = true := by
  cases v with
  | int k n => cases s <;> cases k <;> coerce_fin_in
  | flt k x => cases s <;> cases k <;> coerce_fin_in
  | _ => cases s <;> coerce_fin_in

theorem C04_arm_timeOfIntChk (ext : Ext F) (s : Scalar) (v : GoVal F)
    (hs : armSoundIn s v.kind .timeOfIntChk = true) (hw : v.wf = true) :
    checkIn ext s v (applyAction ext .timeOfIntChk v) = true := by
  cases v with
  | int k n =>
    simp only [applyAction]
    split
    · cases s <;> cases k <;> coerce_fin_in
    · simp [checkIn]
  | flt k x => cases s <;> cases k <;> coerce_fin_in
  | _ => cases s <;> coerce_fin_in

theorem C04_arm_timeOfFloatChk (ext : Ext F) (s : Scalar) (v : GoVal F)
    (hs : armSoundIn s v.kind .timeOfFloatChk = true) (hw : v.wf = true) :
    checkIn ext s v (applyAction ext .timeOfFloatChk v) = true := by
  cases v with
  | int k n => cases s <;> cases k <;> coerce_fin_in
  | flt k x =>
    simp only [applyAction]
    split
    · split
      · cases s <;> cases k <;> coerce_fin_in
      · simp [checkIn]
    · simp [checkIn]
  | _ => cases s <;> coerce_fin_in

theorem C04_arm_timeParseKeep (ext : Ext F) (s : Scalar) (v : GoVal F)
    (hs : armSoundIn s v.kind .timeParseKeep = true) (hw : v.wf = true) :
    checkIn ext s v (applyAction ext .timeParseKeep v) = true := by
  cases v with
  | str str =>
    simp only [armSoundIn, Bool.and_eq_true, beq_iff_eq] at hs
    obtain ⟨_, rfl⟩ := hs
    simp only [applyAction]
    cases ext.timeParse str <;> simp [checkIn, GoVal.kind, Scalar.inKind]
  | int k n => cases s <;> cases k <;> coerce_fin_in
  | flt k x => cases s <;> cases k <;> coerce_fin_in
  | _ => cases s <;> coerce_fin_in

theorem C04_arm_fmtFloat (ext : Ext F) (s : Scalar) (bits : Nat) (v : GoVal F)
    (hs : armSoundIn s v.kind (.fmtFloat bits) = true) (hw : v.wf = true) :
    checkIn ext s v (applyAction ext (.fmtFloat bits) v) = true := by
  simp [armSoundIn] at hs

theorem C04_arm_parseFloatKeep (ext : Ext F) (s : Scalar) (t : NumT) (v : GoVal F)
    (hs : armSoundIn s v.kind (.parseFloatKeep t) = true) (hw : v.wf = true) :
    checkIn ext s v (applyAction ext (.parseFloatKeep t) v) = true := by
  simp [armSoundIn] at hs

theorem C04_arm_parseBoolKeep (ext : Ext F) (s : Scalar) (v : GoVal F)
    (hs : armSoundIn s v.kind .parseBoolKeep = true) (hw : v.wf = true) :
    checkIn ext s v (applyAction ext .parseBoolKeep v) = true := by
  simp [armSoundIn] at hs

theorem C04_arm_neZero (ext : Ext F) (s : Scalar) (v : GoVal F)
    (hs : armSoundIn s v.kind .neZero = true) (hw : v.wf = true) :
    checkIn ext s v (applyAction ext .neZero v) = true := by
  simp [armSoundIn] at hs

theorem C04_arm_boolStr (ext : Ext F) (s : Scalar) (v : GoVal F)
    (hs : armSoundIn s v.kind .boolStr = true) (hw : v.wf = true) :
    checkIn ext s v (applyAction ext .boolStr v) = true := by
  simp [armSoundIn] at hs

theorem C04_arm_symStr (ext : Ext F) (s : Scalar) (v : GoVal F)
    (hs : armSoundIn s v.kind .symStr = true) (hw : v.wf = true) :
    checkIn ext s v (applyAction ext .symStr v) = true := by
  simp [armSoundIn] at hs


/-- a value whose kind is a float kind is a `.flt` -/
theorem flt_of_kind (v : GoVal F) (h : v.kind.isFloat = true) (hw : v.wf = true) : ∃ k x, v = .flt k x := by
  cases v with
  | flt k x => exact ⟨k, x, rfl⟩
  | int k n => cases k <;> simp_all [GoVal.kind, Kind.isFloat, GoVal.wf, kindRange]
  | _ => simp_all [GoVal.kind, Kind.isFloat]

/-- the finiteness-checked float arms: a finite float of the declared width, or an error -/
theorem C04_arm_convStrict (ext : Ext F) (s : Scalar) (t : NumT) (v : GoVal F)
    (hs : armSoundIn s v.kind (.convStrict t) = true) (hw : v.wf = true) :
    checkIn ext s v (applyAction ext (.convStrict t) v) = true := by
  simp only [armSoundIn, Bool.and_eq_true, Bool.or_eq_true, beq_iff_eq] at hs
  obtain ⟨k, x, rfl⟩ := flt_of_kind v hs.1 hw
  rcases hs.2 with ⟨rfl, rfl⟩ | ⟨rfl, rfl⟩
  · simp only [applyAction, convTo]
    by_cases hf : ext.isFinite (ext.round32 x) = true
    · simp [hf, checkIn, GoVal.kind, Scalar.inKind]
    · simp [hf, checkIn]
  · simp only [applyAction, convTo]
    by_cases hf : ext.isFinite x = true
    · simp [hf, checkIn, GoVal.kind, Scalar.inKind]
    · simp [hf, checkIn]

theorem C04_arm_parseFloatFinite (ext : Ext F) (s : Scalar) (t : NumT) (v : GoVal F)
    (hs : armSoundIn s v.kind (.parseFloatFinite t) = true) (hw : v.wf = true) :
    checkIn ext s v (applyAction ext (.parseFloatFinite t) v) = true := by
  simp only [armSoundIn, Bool.and_eq_true, beq_iff_eq] at hs
  obtain ⟨⟨hk, rfl⟩, rfl⟩ := hs
  cases v with
  | str str =>
    simp only [applyAction]
    cases hp : ext.parse str with
    | none => simp [checkIn]
    | some x =>
      by_cases hf : ext.isFinite x = true
      · simp [hf, checkIn, GoVal.kind, Scalar.inKind, NumT.kind]
      · simp [hf, checkIn]
  | int k n => simp only [GoVal.kind] at hk; subst hk; simp [GoVal.wf, kindRange] at hw
  | flt k x => simp only [GoVal.kind] at hk; subst hk; simp [GoVal.wf, Kind.isFloat] at hw
  | _ => simp [GoVal.kind] at hk

/-- **C04_arm.** -/
theorem C04_arm (ext : Ext F) (laws : ExtLaws ext) (s : Scalar) (a : Action) (v : GoVal F)
    (hs : armSoundIn s v.kind a = true) (hw : v.wf = true) :
    checkIn ext s v (applyAction ext a v) = true := by
  cases a with
  | failNil => exact C04_arm_failNil ext s v hs hw
  | asIs => exact C04_arm_asIs ext s v hs hw
  | conv t => exact C04_arm_conv ext s t v hs hw
  | convCheckedKeep t => exact C04_arm_convCheckedKeep ext laws s t v hs hw
  | fmtInt => exact C04_arm_fmtInt ext s v hs hw
  | parseIntKeep t => exact C04_arm_parseIntKeep ext s t v hs hw
  | timeOfInt => exact C04_arm_timeOfInt ext s v hs hw
  | timeOfFloat => exact C04_arm_timeOfFloat ext s v hs hw
  | timeOfIntChk => exact C04_arm_timeOfIntChk ext s v hs hw
  | timeOfFloatChk => exact C04_arm_timeOfFloatChk ext s v hs hw
  | timeParseKeep => exact C04_arm_timeParseKeep ext s v hs hw
  | fmtFloat bits => exact C04_arm_fmtFloat ext s bits v hs hw
  | parseFloatKeep t => exact C04_arm_parseFloatKeep ext s t v hs hw
  | parseBoolKeep => exact C04_arm_parseBoolKeep ext s v hs hw
  | neZero => exact C04_arm_neZero ext s v hs hw
  | boolStr => exact C04_arm_boolStr ext s v hs hw
  | symStr => exact C04_arm_symStr ext s v hs hw
  | convStrict t => exact C04_arm_convStrict ext s t v hs hw
  | parseInt32Keep => simp [armSoundIn] at hs
  | parseFloatFinite t => exact C04_arm_parseFloatFinite ext s t v hs hw
  | fmtUint => simp [armSoundIn] at hs
  | convTrunc t => simp [armSoundIn] at hs

/-- **C04_leaf.**  Table level: whatever arm the regenerated `CoerceIn` table selects for the supplied
value, if it passes the decidable test the outcome is an error (no resolver call) or a conforming
value that denotes what the client wrote. -/
theorem C04_leaf (ext : Ext F) (laws : ExtLaws ext) (s : Scalar) (tbl : Table) (v : GoVal F)
    (hft : tbl.formatTime = false) (hs : armSoundInT s v.kind (tbl.armFor v.kind) = true) (hw : v.wf = true) :
    checkIn ext s v (coerce ext tbl v) = true := by
  have hco : coerce ext tbl v = applyAction ext (tbl.armFor v.kind) v := by simp [coerce, hft]
  rw [hco]
  simp only [armSoundInT, Bool.or_eq_true] at hs
  rcases hs with hs | hs
  · exact C04_arm ext laws s _ v hs hw
  · generalize tbl.armFor v.kind = a at hs
    cases s <;> cases a <;> simp [floatConvSound] at hs
    all_goals (rename_i t; cases t <;> simp at hs)
    all_goals
      obtain ⟨k, n, rfl, _⟩ := int_of_kind v hs hw
      have hr : -18446744073709551616 < n ∧ n < 18446744073709551616 := by
        cases k <;> simp [GoVal.wf, kindRange] at hw <;> omega
      simp [applyAction, convTo, checkIn, GoVal.kind, Scalar.inKind, laws.ofInt_finite n hr.1 hr.2,
        laws.round32_ofInt_finite n hr.1 hr.2]

end Ggql.Coerce
