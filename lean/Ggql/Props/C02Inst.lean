/-
C02 instantiated on the strategy switch read from resolve.go on this run.
-/
import Ggql.Props.C02
import Ggql.Gen.Dispatch
namespace Ggql.C02
open Ggql.Dispatch

def genOrder : List Strategy := Gen.dispatchOrder.filterMap ofName

/-- every arm of the switch was recognised, and they come in the documented order -/
theorem gen_order : genOrder = [.resolver, .any, .reflect] ∧ genOrder.length = Gen.dispatchOrder.length := by decide

/-- **C02_dispatch on the current tree**: Resolver objects first, then an installed root resolver, then reflection -/
theorem C02_dispatch_current (isResolver anyInstalled : Bool) :
    choose genOrder isResolver anyInstalled = if isResolver then .resolver else if anyInstalled then .any else .reflect := by
  rw [gen_order.1]; exact C02_dispatch isResolver anyInstalled

end Ggql.C02
