/-
C12 — "each request's response is identical to the response it gets when run alone" presupposes that the
response of a request run alone is a function of the root and the request.  Go randomises the iteration order
of maps, so every `range` over a map whose body lets the order escape (appending errors, adding members,
returning from inside the loop) makes the response differ from run to run: D76 (`extend input` added its
fields in map order) and D77 (missing-argument, missing-input-field, unknown-input-field and validation
errors came out in map order) were of that shape and are repaired in /repo.

The translator type-checks the package and lists every `range` over a map with what its body does
(`Gen.mapRanges`); a loop that only collects the keys and sorts them straight afterwards is `sorted-keys`.
`C12_map_order` pins the list to the reviewed one below: a new loop over a map, or one of these changing what
its body does, breaks the theorem.
-/
import Ggql.Gen.MapOrder
import Ggql.Gen.Dispatch
namespace Ggql.MapOrder

/-- the reviewed loops; every one not `sorted-keys` carries the reason the order cannot reach a response -/
def reviewed : List (String × String × String) :=
  [("DirectiveUse.Write", "dir.Args", "sorted-keys"),
   ("Executable.SetContextRecursive", "ex.Ops", "none"),          -- sets a context on every operation: order-free
   ("Executable.Validate", "ex.Fragments", "sorted-keys"),
   ("Executable.Validate", "ex.Ops", "sorted-keys"),
   ("Executable.validateFragmentCycles", "ex.Fragments", "sorted-keys"),
   ("Executable.write", "ex.Fragments", "sorted-keys"),
   ("Executable.write", "ex.Ops", "sorted-keys"),
   ("Input.CoerceIn", "tv", "none"),                              -- picks the least unknown key (a minimum is order-free)
   ("Input.CoerceIn", "tv", "none"),                              -- copies the entries into a new map
   ("Root.ParseFS", "fileSet", "append+return"),                  -- concatenates the files into ONE document, whose definition order is immaterial (C16_perm); only line numbers of errors move
   ("Root.ResolveExecutable", "exe.Ops", "break"),                -- taken only when the map has exactly one entry
   ("Root.formArgs", "fd.args.dict", "none"),                     -- fills a set (map) of required names
   ("Root.replaceArgVars", "tv", "sorted-keys"),
   ("Root.validateDirUse", "du.Args", "sorted-keys"),
   ("VerifParseExe", "exe.Ops", "append"),                        -- verification hook (build tag verif), sorts its output itself
   ("mergeValue", "ta", "none"),                                  -- merges the entries of the later object into a new map
   ("mergeValue", "tp", "none"),                                  -- copies the entries of the earlier object into a new map
   ("typeList.dup", "tl.dict", "none"),                           -- copies the entries into a new map
   ("writeMap", "m", "none"),                                     -- the documented unsorted mode (`ggql.Sort == false`)
   ("writeMap", "m", "sorted-keys")]

/-- **C12_map_order.**  The loops over Go maps in the package on this run are exactly the reviewed ones. -/
theorem C12_map_order : Gen.mapRanges = reviewed := by decide

/-- every loop whose body can expose the order is one of the five reviewed exceptions -/
theorem C12_map_order_exposed :
    (Gen.mapRanges.filter (fun s => s.2.2 != "sorted-keys" && s.2.2 != "none")).map (·.1) =
      ["Root.ParseFS", "Root.ResolveExecutable", "VerifParseExe"] := by decide

/-- the loop that registered the subscriptions of one request in map order (D81: C19 prescribes registration
order) is gone: they are registered in the order the fields are written -/
theorem C19_registration_not_by_map : Gen.subOrderByMap = false := by decide

end Ggql.MapOrder
