/-
Whole-walk theorems (C01 / C06 / C10): statements about everything `rSels` / `run` produce for a
request — at every nesting depth, through lists of lists, under every container kind, inside inline
and named fragments — proved by mutual structural induction over the selection tree.
-/
import Ggql.Model.Walk
namespace Ggql.Walk

/-! ### accumulators -/

theorem foldl_append_calls (accs : List Acc) (a : Acc) (c : Call) :
    c ∈ (accs.foldl Acc.append a).calls ↔ c ∈ a.calls ∨ ∃ x ∈ accs, c ∈ x.calls := by
  induction accs generalizing a with
  | nil => simp
  | cons x xs ih =>
    simp only [List.foldl_cons, ih, Acc.append, List.mem_append, List.mem_cons, exists_eq_or_imp]
    constructor
    · rintro ((h | h) | h)
      · exact Or.inl h
      · exact Or.inr (Or.inl h)
      · exact Or.inr (Or.inr h)
    · rintro (h | h | h)
      · exact Or.inl (Or.inl h)
      · exact Or.inl (Or.inr h)
      · exact Or.inr h

theorem foldl_append_errs (accs : List Acc) (a : Acc) (e : Err) :
    e ∈ (accs.foldl Acc.append a).errs ↔ e ∈ a.errs ∨ ∃ x ∈ accs, e ∈ x.errs := by
  induction accs generalizing a with
  | nil => simp
  | cons x xs ih =>
    simp only [List.foldl_cons, ih, Acc.append, List.mem_append, List.mem_cons, exists_eq_or_imp]
    constructor
    · rintro ((h | h) | h)
      · exact Or.inl h
      · exact Or.inr (Or.inl h)
      · exact Or.inr (Or.inr h)
    · rintro (h | h | h)
      · exact Or.inl (Or.inl h)
      · exact Or.inl (Or.inr h)
      · exact Or.inr h

/-! ### `complete` passes on what its continuation guarantees -/

/-- every invocation logged below `complete` was logged by the object-level continuation -/
theorem complete_calls (s : Schema) (g : Graph) (k : Nat → String → Nat → J × Acc) (P : Call → Prop)
    (hk : ∀ n t d, ∀ c ∈ (k n t d).2.calls, P c) :
    ∀ (t : TRef) (v : DVal) (d : Nat), ∀ c ∈ (complete s g k t v d).2.calls, P c := by
  intro t
  induction t with
  | named n =>
    intro v d c hc
    by_cases hd : d = 0
    · cases v <;> simp [complete, hd] at hc
    · cases hf : s.find n with
      | none => cases v <;> simp [complete, hd, hf] at hc
      | some td =>
        cases td <;> cases v <;> simp [complete, hd, hf] at hc
        all_goals first | exact hk _ _ _ c hc | skip
        split at hc
        · exact hk _ _ _ c hc
        · simp at hc
  | list t ih =>
    intro v d c hc
    by_cases hd : d = 0
    · cases v <;> simp [complete, hd] at hc
    · cases v with
      | list xs =>
        simp only [complete, hd, if_false] at hc
        rw [foldl_append_calls] at hc
        rcases hc with hc | ⟨x, hx, hc⟩
        · simp at hc
        · simp only [List.mem_map] at hx
          obtain ⟨p, hp, rfl⟩ := hx
          have hp1 := List.fst_mem_of_mem_zipIdx hp
          simp only [List.mem_map] at hp1
          obtain ⟨x, _, hx⟩ := hp1
          simp only at hc
          rw [← hx] at hc
          exact ih x (d - 1) c hc
      | nil => simp [complete] at hc
      | leaf l => simp [complete, hd] at hc
      | ref node => simp [complete, hd] at hc
  | nonNull t ih =>
    intro v d c hc
    by_cases hd : d = 0
    · cases v <;> simp [complete, hd] at hc
    · cases v <;> simp only [complete, hd, if_false] at hc
      · simp at hc
      all_goals exact ih _ _ c hc

/-! ### C10: nothing undefined is ever resolved -/

/-- an invocation the schema licenses: the field is defined on the static container type the selection was
resolved against, and argument checking reported nothing (no undeclared argument noticed, no required
argument missing or null) -/
def CallOk (env : Env) (c : Call) : Prop :=
  ∃ fd, getFieldDef env.schema c.ty c.field = some fd ∧ argErrors env.cfg env.schema c.ty fd c.args = ([], [])

mutual
theorem rSel_calls_ok (env : Env) (node : Nat) (ty : String) (d : Nat) (res : List (String × J)) :
    ∀ (s : Sel), ∀ c ∈ (rSel env node ty d res s).2.calls, CallOk env c
  | .field al name args dirs sels => by
    intro c hc
    by_cases h1 : (Skip.skipSel env.cfg.skipTable dirs env.vars).1 = true
    · simp [rSel, h1] at hc
    by_cases h2 : (name == "__typename") = true
    · simp only [rSel, h1, h2, Bool.false_eq_true, if_false, if_true] at hc
      split at hc <;> simp at hc
    cases hfd : getFieldDef env.schema ty name with
    | none => simp [rSel, h1, h2, hfd] at hc
    | some fd =>
      by_cases h3 : (argErrors env.cfg env.schema ty fd args).1.isEmpty = true
      · by_cases h4 : (argErrors env.cfg env.schema ty fd args).2.isEmpty = true
        · simp only [rSel, h1, h2, hfd, h3, h4, Bool.false_eq_true, if_false, Bool.not_true, List.mem_cons] at hc
          rcases hc with rfl | hc
          · refine ⟨fd, hfd, ?_⟩
            simp only [List.isEmpty_iff] at h3 h4
            exact Prod.ext h3 h4
          · refine complete_calls env.schema env.graph _ (CallOk env) ?_ fd.type _ d c hc
            intro n t d' c hc
            split at hc
            · simp at hc
            · exact rSels_calls_ok env n (staticTy env fd.type t) d' [] sels c hc
        · simp [rSel, h1, h2, hfd, h3, h4] at hc
      · simp [rSel, h1, h2, hfd, h3] at hc
  | .inline cond dirs sels sp => by
    intro c hc
    simp only [rSel] at hc
    split at hc
    · simp at hc
    · split at hc
      · exact rSels_calls_ok env node (fragTy env ty cond) d res sels c hc
      · simp at hc

theorem rSels_calls_ok (env : Env) (node : Nat) (ty : String) (d : Nat) (res : List (String × J)) :
    ∀ (ss : List Sel), ∀ c ∈ (rSels env node ty d res ss).2.calls, CallOk env c
  | [] => by simp [rSels]
  | s :: rest => by
    intro c hc
    simp only [rSels, Acc.append, List.mem_append] at hc
    rcases hc with hc | hc
    · exact rSel_calls_ok env node ty d res s c hc
    · exact rSels_calls_ok env node ty d _ rest c hc
end

/-- **C10_never_resolved.**  For every schema, data graph, document, operation name, variable map and
configuration: every resolver invocation of the whole request — at any depth, through lists, under object,
interface, union-member and root containers, inside inline and named fragments — is of a field the static
container type defines, with arguments that passed argument checking.  An undefined field, and a field
whose arguments were reported, is never resolved. -/
theorem C10_never_resolved (env : Env) (ops : List Op) (opName : String) (rootNode : Nat)
    (rootTy : String → Option String) :
    ∀ c ∈ (run env ops opName rootNode rootTy).acc.calls, CallOk env c := by
  intro c hc
  unfold run at hc
  split at hc
  · simp at hc
  · split at hc
    · simp at hc
    · split at hc
      · simp at hc
      · exact rSels_calls_ok env _ _ _ _ _ c hc

/-- in particular: no invocation names a field its container type does not define -/
theorem C10_undefined_field_never_resolved (env : Env) (ops : List Op) (opName : String) (rootNode : Nat)
    (rootTy : String → Option String) (c : Call) (hc : c ∈ (run env ops opName rootNode rootTy).acc.calls) :
    getFieldDef env.schema c.ty c.field ≠ none := by
  obtain ⟨fd, h, _⟩ := C10_never_resolved env ops opName rootNode rootTy c hc
  simp [h]

/-- and none is made while a required argument is absent or null -/
theorem C10_required_arg_never_missing (env : Env) (ops : List Op) (opName : String) (rootNode : Nat)
    (rootTy : String → Option String) (c : Call) (hc : c ∈ (run env ops opName rootNode rootTy).acc.calls)
    (fd : FieldDef) (hfd : getFieldDef env.schema c.ty c.field = some fd) (dn : ArgDef) (hdn : dn ∈ fd.args)
    (hreq : dn.required = true) : ∃ a ∈ c.args, a.name = dn.name ∧ a.isNull = false := by
  obtain ⟨fd', h, hae⟩ := C10_never_resolved env ops opName rootNode rootTy c hc
  rw [hfd] at h
  cases h
  have h2 : (argErrors env.cfg env.schema c.ty fd c.args).2 = [] := by rw [hae]
  simp only [argErrors, List.append_eq_nil_iff, List.map_eq_nil_iff, List.filter_eq_nil_iff] at h2
  have := h2.2 dn hdn
  simp only [hreq, Bool.true_and, Bool.not_eq_true', Bool.not_eq_false'] at this
  have hany : (c.args.any fun a => a.name == dn.name && !a.isNull) = true := by
    cases hh : (c.args.any fun a => a.name == dn.name && !a.isNull) with
    | true => rfl
    | false => exact absurd hh (by simpa using this)
  simp only [List.any_eq_true, Bool.and_eq_true, beq_iff_eq, Bool.not_eq_true'] at hany
  obtain ⟨a, ha, hn, hnull⟩ := hany
  exact ⟨a, ha, hn, hnull⟩

/-! ### C06: one entry per member of a resolver's error group, at the field's own path -/

/-- no error with an empty path is a resolver failure: resolver failures are always keyed -/
def NoBareResolver (es : List Err) : Prop := ∀ e ∈ es, e.path = [] → e.cls ≠ .resolver

theorem complete_noBare (s : Schema) (g : Graph) (k : Nat → String → Nat → J × Acc)
    (hk : ∀ n t d, NoBareResolver (k n t d).2.errs) :
    ∀ (t : TRef) (v : DVal) (d : Nat), NoBareResolver (complete s g k t v d).2.errs := by
  intro t
  induction t with
  | named n =>
    intro v d e he hp
    by_cases hd : d = 0
    · cases v <;> simp [complete, hd] at he
    · cases hf : s.find n with
      | none => cases v <;> simp [complete, hd, hf] at he <;> simp [he]
      | some td =>
        cases td <;> cases v <;> simp [complete, hd, hf] at he
        all_goals first | (simp [he]; done) | exact hk _ _ _ e he hp | skip
        split at he
        · exact hk _ _ _ e he hp
        · simp at he
  | list t ih =>
    intro v d e he hp
    by_cases hd : d = 0
    · cases v <;> simp [complete, hd] at he
    · cases v with
      | list xs =>
        simp only [complete, hd, if_false] at he
        rw [foldl_append_errs] at he
        rcases he with he | ⟨x, hx, he⟩
        · simp at he
        · simp only [List.mem_map] at hx
          obtain ⟨p, _, rfl⟩ := hx
          simp only [prefixErrs, List.mem_map] at he
          obtain ⟨e', _, rfl⟩ := he
          simp at hp
      | nil => simp [complete] at he
      | leaf l => simp [complete, hd] at he; simp [he]
      | ref node => simp [complete, hd] at he; simp [he]
  | nonNull t ih =>
    intro v d e he hp
    by_cases hd : d = 0
    · cases v <;> simp [complete, hd] at he
    · cases v <;> simp only [complete, hd, if_false] at he
      · simp at he
      all_goals exact ih _ _ e he hp

theorem prefixErrs_path_ne_nil (sg : Seg) (es : List Err) : ∀ e ∈ prefixErrs sg es, e.path ≠ [] := by
  intro e he
  simp only [prefixErrs, List.mem_map] at he
  obtain ⟨e', _, rfl⟩ := he
  simp

mutual
theorem rSel_noBare (env : Env) (node : Nat) (ty : String) (d : Nat) (res : List (String × J)) :
    ∀ (s : Sel), NoBareResolver (rSel env node ty d res s).2.errs
  | .field al name args dirs sels => by
    intro e he hp
    -- every error of a field selection is keyed
    exfalso
    have hkeyed : ∀ e ∈ (rSel env node ty d res (.field al name args dirs sels)).2.errs, e.path ≠ [] := by
      intro e he
      by_cases h1 : (Skip.skipSel env.cfg.skipTable dirs env.vars).1 = true
      · simp [rSel, h1] at he; simp [he.2]
      by_cases h2 : (name == "__typename") = true
      · simp only [rSel, h1, h2, Bool.false_eq_true, if_false, if_true] at he
        split at he
        · simp only [List.mem_append, List.mem_replicate, List.mem_singleton] at he
          rcases he with he | he <;> simp [he]
        · simp only [List.mem_replicate] at he; simp [he.2]
      cases hfd : getFieldDef env.schema ty name with
      | none =>
        simp [rSel, h1, h2, hfd] at he
        rcases he with he | he <;> simp [he]
      | some fd =>
        by_cases h3 : (argErrors env.cfg env.schema ty fd args).1.isEmpty = true
        · by_cases h4 : (argErrors env.cfg env.schema ty fd args).2.isEmpty = true
          · simp only [rSel, h1, h2, hfd, h3, h4, Bool.false_eq_true, if_false, Bool.not_true, List.mem_append] at he
            rcases he with he | he
            · simp at he; simp [he.2]
            · exact prefixErrs_path_ne_nil _ _ e he
          · simp only [rSel, h1, h2, hfd, h3, h4, Bool.false_eq_true, if_false, Bool.not_true, Bool.not_false, if_true, List.mem_append] at he
            rcases he with he | he
            · simp at he; simp [he.2]
            · exact prefixErrs_path_ne_nil _ _ e he
        · simp only [rSel, h1, h2, hfd, h3, Bool.false_eq_true, if_false, Bool.not_false, if_true, List.mem_append] at he
          rcases he with he | he
          · simp at he; simp [he.2]
          · exact prefixErrs_path_ne_nil _ _ e he
    exact hkeyed e he hp
  | .inline cond dirs sels sp => by
    intro e he hp
    simp only [rSel] at he
    split at he
    · simp at he; simp [he.2]
    · split at he
      · simp only [List.mem_append] at he
        rcases he with he | he
        · simp at he; simp [he.2]
        · cases sp with
          | none => exact rSels_noBare env node (fragTy env ty cond) d res sels e he hp
          | some _ =>
            simp only at he
            split at he
            · exact absurd hp (prefixErrs_path_ne_nil _ _ e he)
            · exact rSels_noBare env node (fragTy env ty cond) d res sels e he hp
      · simp at he; simp [he.2]

theorem rSels_noBare (env : Env) (node : Nat) (ty : String) (d : Nat) (res : List (String × J)) :
    ∀ (ss : List Sel), NoBareResolver (rSels env node ty d res ss).2.errs
  | [] => by intro e he; simp [rSels] at he
  | s :: rest => by
    intro e he hp
    simp only [rSels, Acc.append, List.mem_append] at he
    rcases he with he | he
    · exact rSel_noBare env node ty d res s e he hp
    · exact rSels_noBare env node ty d _ rest e he hp
end

/-- **C06_group_members.**  A field selection that is resolved (not excluded, defined, arguments accepted)
whose resolver returns a group of `n` errors contributes exactly `n` resolver-failure entries whose path is
the selection's own response key — whatever happens below it (nested failures are reported under longer
paths, coercion failures under other classes). -/
theorem C06_group_members (env : Env) (node : Nat) (ty : String) (d : Nat) (res : List (String × J))
    (al name : String) (args : List ArgVal) (dirs : List Skip.DirUse) (sels : List Sel) (fd : FieldDef)
    (h1 : (Skip.skipSel env.cfg.skipTable dirs env.vars).1 = false) (h2 : (name == "__typename") = false)
    (hfd : getFieldDef env.schema ty name = some fd)
    (hargs : argErrors env.cfg env.schema ty fd args = ([], [])) :
    let key := if al.isEmpty then name else al
    ((rSel env node ty d res (.field al name args dirs sels)).2.errs.filter
        (fun e => e.path == [Seg.key key] && e.cls == ErrCls.resolver)).length
      = (fetch env.graph node name).errs := by
  intro key
  have hnb := complete_noBare env.schema env.graph
    (fun n t d' => if sels.isEmpty then ((.obj [] : J), ({ errs := [⟨[], .noSelection⟩] } : Acc))
      else let r := rSels env n (staticTy env fd.type t) d' [] sels; (.obj r.1, r.2))
    (by
      intro n t d' e he hp
      simp only at he
      split at he
      · simp at he; simp [he]
      · exact rSels_noBare env n (staticTy env fd.type t) d' [] sels e he hp)
    fd.type (fetch env.graph node name).val d
  simp only [rSel, h1, h2, hfd, hargs, Bool.false_eq_true, if_false, List.isEmpty_nil, Bool.not_true,
    List.filter_append, List.length_append]
  have e1 : (List.filter (fun e => e.path == [Seg.key key] && e.cls == ErrCls.resolver)
      (List.replicate (Skip.skipSel env.cfg.skipTable dirs env.vars).2 (⟨[.key key], .directive⟩ : Err))).length = 0 := by
    simp [List.filter_replicate]
  have e2 : (List.filter (fun e => e.path == [Seg.key key] && e.cls == ErrCls.resolver)
      (prefixErrs (.key key) (List.replicate (fetch env.graph node name).errs (⟨[], .resolver⟩ : Err)))).length
      = (fetch env.graph node name).errs := by
    simp [prefixErrs, List.filter_replicate]
  have e3 : ∀ es : List Err, NoBareResolver es →
      (List.filter (fun e => e.path == [Seg.key key] && e.cls == ErrCls.resolver) (prefixErrs (.key key) es)).length = 0 := by
    intro es hes
    rw [List.length_eq_zero_iff, List.filter_eq_nil_iff]
    intro e he
    simp only [prefixErrs, List.mem_map] at he
    obtain ⟨e', he', rfl⟩ := he
    simp only [Bool.and_eq_true, beq_iff_eq, List.cons.injEq, true_and, not_and]
    intro hp
    exact hes e' he' hp
  simp only [prefixErrs, List.map_append, List.filter_append, List.length_append] at e1 e2 e3 ⊢
  have := e3 _ hnb
  simp only [key] at e1 e2 this ⊢
  omega

/-! ### C01: which operation runs -/

/-- **C01_unknown_name.**  With the fallback repaired (`opFallbackAnyName = false`, as read from the source):
a non-empty name that matches no operation executes nothing — no resolver is invoked, data is null. -/
theorem C01_unknown_name (env : Env) (hcfg : env.cfg.opFallbackAnyName = false) (ops : List Op) (opName : String)
    (hne : opName.isEmpty = false) (hno : ∀ o ∈ ops, (o.name == opName) = false) (rootNode : Nat)
    (rootTy : String → Option String) :
    (run env ops opName rootNode rootTy).acc.calls = [] ∧ (run env ops opName rootNode rootTy).data = some .null := by
  have hf : ops.find? (fun o => o.name == opName) = none := by
    rw [List.find?_eq_none]; intro o ho; simp [hno o ho]
  simp [run, chooseOp, hf, hcfg, hne]

/-- **C01_ambiguous.**  No name given, more than one operation, none of them anonymous: nothing runs. -/
theorem C01_ambiguous (env : Env) (ops : List Op) (hlen : ops.length ≠ 1)
    (hno : ∀ o ∈ ops, (o.name == "") = false) (rootNode : Nat) (rootTy : String → Option String) :
    (run env ops "" rootNode rootTy).acc.calls = [] ∧ (run env ops "" rootNode rootTy).data = some .null := by
  have hf : ops.find? (fun o => o.name == "") = none := by
    rw [List.find?_eq_none]; intro o ho; simp [hno o ho]
  have : (match ops with | [o] => some o | _ => none) = none := by
    match ops, hlen with
    | [], _ => rfl
    | [o], h => simp at h
    | _ :: _ :: _, _ => rfl
  have hc : chooseOp env.cfg ops "" = none := by
    simp only [chooseOp, hf]
    split
    · exact this
    · rfl
  simp [run, hc]

/-- **C01_named.**  A name that matches an operation runs the first operation of that name. -/
theorem C01_named (cfg : Cfg) (ops : List Op) (opName : String) (o : Op)
    (h : ops.find? (fun o => o.name == opName) = some o) : chooseOp cfg ops opName = some o := by
  simp [chooseOp, h]

/-- **C01_only.**  No name given and exactly one operation: that one runs. -/
theorem C01_only (cfg : Cfg) (o : Op) : chooseOp cfg [o] "" = some o := by
  simp only [chooseOp, List.find?]
  cases h : (o.name == "") <;> simp

/-! ### non-vacuity -/

private def exSchema : Schema :=
  [.object "Q" [{ name := "a", type := .named "Int", args := [⟨"x", true⟩] }, { name := "t", type := .list (.named "T") }] [],
   .object "T" [{ name := "b", type := .named "Int" }] [], .leaf "Int"]
private def exGraph : Graph :=
  [⟨"Q", [("a", { val := .leaf (.int 1) }), ("t", { val := .list [.ref 1, .ref 1], errs := 2 })]⟩,
   ⟨"T", [("b", { val := .leaf (.int 2) })]⟩]
private def exEnv : Env := { cfg := { skipTable := Skip.tableAssign, opFallbackAnyName := false }, schema := exSchema, graph := exGraph, vars := [] }
private def exOps : List Op :=
  [⟨"", "query", [.field "" "a" [⟨"x", false⟩] [] [], .field "" "zz" [] [] [], .field "" "a" [] [] [],
    .field "k" "t" [] [] [.field "" "b" [] [] [], .field "" "nope" [] [] []]]⟩]

/-- the request above invokes `a` once (the second `a` lacks its required argument, `zz` and `nope` are
undefined), `t` once and `b` twice; the group of two errors returned by `t` gives two entries at `k` -/
example : ((run exEnv exOps "" 0 (fun k => if k == "query" then some "Q" else none)).acc.calls.map (·.field)) = ["a", "t", "b", "b"] ∧
    ((run exEnv exOps "" 0 (fun k => if k == "query" then some "Q" else none)).acc.errs.filter
      (fun e => e.path == [Seg.key "k"] && e.cls == ErrCls.resolver)).length = 2 := by decide

end Ggql.Walk
