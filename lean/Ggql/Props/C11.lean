/-
C11 — resolving does not change the parsed request.

On the argument-formation model: with literals copied instead of updated in place (the repaired
configuration) every call of a sequence is computed from the literal as parsed — so each call equals
what a fresh parse gives, for every history of variable maps; with in-place update (as coded, D25) a
variable nested in an object or list literal is substituted once and for all (witness).
-/
import Ggql.Model.Args
namespace Ggql.Args
open Ggql.Coerce
variable {F : Type}

theorem literalAfter_off (lit out : Val F) : literalAfter false lit out = lit := by simp [literalAfter]

theorem updateGiven_off (given args : List (String × Val F)) : updateGiven false given args = given := by
  unfold updateGiven
  induction given with
  | nil => rfl
  | cons p ps ih =>
    simp only [List.map_cons, ih]
    cases lookup args p.1 <;> simp [literalAfter_off]

theorem newDefault_off (vd : VarDef F) (supplied given args : List (String × Val F)) :
    newDefault false vd supplied given args = vd.dflt := by
  unfold newDefault
  cases vd.dflt with
  | none => rfl
  | some d =>
    simp only
    split
    · split
      · split <;> simp [literalAfter_off]
      · rfl
    · rfl

theorem updateDefaults_off (vdefs : List (VarDef F)) (supplied given args : List (String × Val F)) :
    updateDefaults false vdefs supplied given args = vdefs := by
  unfold updateDefaults
  induction vdefs with
  | nil => rfl
  | cons vd vds ih =>
    simp only [List.map_cons, newDefault_off] at ih ⊢
    rw [ih]

/-- **C11_full (argument layer).**  Without in-place update, for every finite sequence of variable maps
the i-th resolution of the parsed field equals the resolution of a freshly parsed copy with the i-th
variable map: the parsed request is not an input of later calls. -/
theorem C11_full (cfg : Cfg) (ext : Ext F) (tin : Scalar → Table) (inputs : List (InputDef F))
    (vdefs : List (VarDef F)) (decl : List ArgDef) (given : List (String × Val F)) (calls : List (List (String × Val F))) :
    formArgsSeq false cfg ext tin inputs decl vdefs given calls =
      calls.map (fun supplied => formArgs cfg ext tin inputs vdefs supplied decl given) := by
  induction calls generalizing given vdefs with
  | nil => rfl
  | cons c cs ih =>
    simp only [formArgsSeq, List.map_cons, updateGiven_off, updateDefaults_off, ih]

/-- top-level literals that are neither objects nor lists survive every call as written, even with
in-place update: the partial guarantee of the code as it is -/
theorem literalAfter_atom (lit out : Val F) (h : ∀ kvs, lit ≠ .obj kvs) (h' : ∀ xs, lit ≠ .list xs) :
    literalAfter true lit out = lit := by
  cases lit <;> simp [literalAfter] <;> first | exact absurd rfl (h _) | exact absurd rfl (h' _)

end Ggql.Args
