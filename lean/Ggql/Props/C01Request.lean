/-
C01, the choice of operation at the level of the whole request (document validation, then the walk): a document in
which an operation without a name stands next to other operations is refused whatever name the caller gives — no
resolver runs — in the configuration read from `Executable.Validate` on this run (`Gen.anonAmongOthers = false`).
-/
import Ggql.Props.WalkWhole
import Ggql.Gen.Dispatch
namespace Ggql.Walk

/-- **C01_lone_anonymous.**  With the rule in place, a document that breaks it executes nothing, for every
operation name, schema, data graph and variable map: no resolver is invoked and the response has no data. -/
theorem C01_lone_anonymous (env : Env) (h : env.cfg.anonAmongOthers = false) (ops : List Op)
    (hbad : loneAnonymousOk ops = false) (opName : String) (rootNode : Nat) (rootTy : String → Option String) :
    (request env ops opName rootNode rootTy).acc.calls = [] ∧ (request env ops opName rootNode rootTy).data = none := by
  simp [request, h, hbad]

/-- a document that keeps the rule is answered by the walk -/
theorem request_valid (env : Env) (ops : List Op) (hok : loneAnonymousOk ops = true) (opName : String)
    (rootNode : Nat) (rootTy : String → Option String) :
    request env ops opName rootNode rootTy = run env ops opName rootNode rootTy := by
  simp [request, hok]

/-- in a document that keeps the rule and has several operations every operation has a name: the empty name
matches none of them, so "no name given" can only mean the only operation -/
theorem valid_several_all_named (ops : List Op) (hok : loneAnonymousOk ops = true) (hn : 1 < ops.length) :
    ∀ o ∈ ops, o.name.isEmpty = false := by
  intro o ho
  simp only [loneAnonymousOk, Bool.or_eq_true, decide_eq_true_eq, List.all_eq_true, Bool.not_eq_true'] at hok
  rcases hok with hle | hall
  · omega
  · exact hall o ho

/-- **C10 at union positions.**  No resolver is ever invoked for a selection typed by a union: a union defines no
field, so a field selected directly under a union-typed field (D103: resolved at the member type as coded at first) is
reported and not resolved — whatever member the value is.  (`Call.ty` is the type the selection was resolved
against; with `staticTy` that is the union itself for the selections directly under a union-typed field.) -/
theorem C10_no_call_at_a_union (env : Env) (ops : List Op) (opName : String) (rootNode : Nat)
    (rootTy : String → Option String) :
    ∀ c ∈ (run env ops opName rootNode rootTy).acc.calls, ∀ unm ms, env.schema.find c.ty ≠ some (.union unm ms) := by
  intro c hc unm ms hu
  obtain ⟨fd, hfd, _⟩ := C10_never_resolved env ops opName rootNode rootTy c hc
  simp [getFieldDef, hu, TypeDef.fields] at hfd

theorem gen_anonAmongOthers : Gen.anonAmongOthers = false := by decide

/-- **C01_lone_anonymous_current**: the instance for the configuration regenerated from the source. -/
theorem C01_lone_anonymous_current (env : Env) (hc : env.cfg.anonAmongOthers = Gen.anonAmongOthers) (ops : List Op)
    (hbad : loneAnonymousOk ops = false) (opName : String) (rootNode : Nat) (rootTy : String → Option String) :
    (request env ops opName rootNode rootTy).acc.calls = [] ∧ (request env ops opName rootNode rootTy).data = none :=
  C01_lone_anonymous env (by rw [hc]; exact gen_anonAmongOthers) ops hbad opName rootNode rootTy

/- non-vacuity: `{a} query Q {b}` breaks the rule, `query P {a} query Q {b}` and `{a}` keep it -/
example : loneAnonymousOk [⟨"", "query", []⟩, ⟨"Q", "query", []⟩] = false ∧
    loneAnonymousOk [⟨"P", "query", []⟩, ⟨"Q", "query", []⟩] = true ∧ loneAnonymousOk [⟨"", "query", []⟩] = true := by
  decide

end Ggql.Walk
