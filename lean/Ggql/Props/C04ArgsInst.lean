/-
C04 composite theorems instantiated on what the translator read from the source on this run: the `CoerceIn`
tables of the eight scalars and the four forms of `replaceArgVars` (list arm, symbol arm twice, object arm).
-/
import Ggql.Props.C04Args
import Ggql.Props.C05Inst
import Ggql.Gen.Dispatch
import Ggql.Props.C11
namespace Ggql.Args
open Ggql.Coerce

/-- the configuration of `replaceArgVars` / `ResolveExecutable` as read from the source -/
def genCfg : Cfg :=
  { listNotCoerced := Gen.listNotCoerced, symbolUnchecked := Gen.symbolUnchecked, nullVarUsesDefault := Gen.nullVarUsesDefault,
    objectUnchecked := Gen.objectUnchecked, symbolBaseEnum := Gen.symbolBaseEnum }

/-- **C04_cfg_repaired.**  The source has the repaired forms (D09, D10, D65, D68): a regression of any of them
breaks this obligation. -/
theorem C04_cfg_repaired : genCfg.repaired := by
  refine ⟨?_, ?_, ?_, ?_⟩ <;> decide

/-- every arm of every regenerated `CoerceIn` table builds values of existing Go kinds -/
theorem C04_tables_wf : ∀ s, TableWf (inTable s) = true := by
  intro s; cases s <;> decide

/-- **C04_formArgs_current.**  `C04_formArgs` on the source as it is now: for every field invocation — any
declared arguments, any argument expressions nested to any depth, any variable definitions, defaults and
supplied values — if the resolver is invoked, every argument it receives conforms to the declared type and
every argument it does not receive is nullable.  What is assumed: the runtime's floats (`ExtLaws`,
`F2iRange`), and of the schema that input-field names are distinct, input-field defaults are well-formed and
conform to their field's type (`InputsOk`; the loader does not establish the last one: finding D66). -/
theorem C04_formArgs_current {F : Type} (ext : Ext F) (laws : ExtLaws ext) (hf : F2iRange ext)
    (inputs : List (InputDef F)) (hin : InputsOk ext inputs)
    (hdw : ∀ d ∈ inputs, ∀ f ∈ d.fields, ∀ dv, f.dflt = some dv → ValWF dv)
    (vdefs : List (VarDef F)) (hvd : ∀ vd ∈ vdefs, ∀ d, vd.dflt = some d → ValWF d)
    (supplied : List (String × Val F)) (hsup : ∀ p ∈ supplied, ValWF p.2)
    (decl : List ArgDef) (hnd : (decl.map (·.name)).Nodup)
    (given : List (String × Val F)) (hgiven : ∀ p ∈ given, ValWF p.2)
    (hcalled : (formArgs genCfg ext inTable inputs vdefs supplied decl given).called = true) :
    ∀ a ∈ decl, match lookup (formArgs genCfg ext inTable inputs vdefs supplied decl given).args a.name with
      | some v => Conforms ext inputs a.type v
      | none => a.type.nullable = true :=
  C04_formArgs genCfg C04_cfg_repaired ext inTable inputs
    (fun s g hw => C04_current ext laws s g hw) hin ⟨hf, C04_tables_wf, hdw⟩
    vdefs hvd supplied hsup decl hnd given hgiven hcalled

/-- a stand-in runtime for the non-vacuity example below -/
def demoExt : Ext Nat :=
  { toIntExact := fun _ => none, f2i := fun _ _ => 0, trunc := fun _ => none, ofInt := fun _ => 0, round32 := id,
    isFinite := fun _ => true, isZero := fun _ => false, fmt := fun _ _ => "", parse := fun _ => none,
    timeOfFloat := fun _ => 0, timeParse := fun _ => none, timeFormat := fun _ => "" }

/-- non-vacuity: a request that passes an input object with a nested list and a variable is answered with a
call, on the regenerated tables -/
example :
    (formArgs (F := Nat) genCfg demoExt inTable
      [⟨"In", [⟨"a", .scalar .int, none⟩, ⟨"l", .list (.nonNull (.scalar .string)), none⟩], Gen.inputNullTakesDefault⟩]
      [⟨"v", .scalar .int, none⟩] [("v", .go (.int .i64 7))]
      [⟨"x", .nonNull (.input "In")⟩, ⟨"y", .scalar .boolean⟩]
      [("x", .obj [("a", .var "v"), ("l", .list [.go (.str "s")])])]).called = true := by decide

end Ggql.Args

namespace Ggql.Args
open Ggql.Coerce

/-- **C11_current.**  On the source as it is now (`Gen.argsInPlace = false`: `replaceArgVars`, `Input.CoerceIn` and
`List.CoerceIn` build new maps and lists): an executable parsed once and resolved any number of times, with any
variable maps, hands each call exactly what a fresh parse of the same text would — the parsed request is not
changed by being resolved. -/
theorem C11_current {F : Type} (ext : Ext F) (inputs : List (InputDef F))
    (vdefs : List (VarDef F)) (decl : List ArgDef) (given : List (String × Val F)) (calls : List (List (String × Val F))) :
    formArgsSeq Gen.argsInPlace genCfg ext inTable inputs decl vdefs given calls =
      calls.map (fun supplied => formArgs genCfg ext inTable inputs vdefs supplied decl given) := by
  have h : Gen.argsInPlace = false := by decide
  rw [h]
  exact C11_full genCfg ext inTable inputs vdefs decl given calls

/-- the functions that form, coerce and hand on argument values, as the models of C04 / C11 were written against
them (hash of each, strings and comments stripped).  An edit to any of them breaks this obligation; the
correspondence then decides (mutating-resolver table of C11, argument streams of C04 / C02). -/
def pinnedArgSkeleton : List (String × String) := [
  ("Error.in", "cffe1f43c8db"),
  ("Errors.in", "fbcdd807c73e"),
  ("Input.CoerceIn", "1ae44ebae6eb"),
  ("Input.reflectSet", "d6bbe634d4a6"),
  ("Input.reflectSetKey", "b97163bbb51d"),
  ("List.CoerceIn", "342314fa8b37"),
  ("Root.addError", "c5f7e10ca815"),
  ("NonNull.CoerceIn", "07c35bfdab4c"),
  ("Root.formArgs", "4ce1628b3fc4"),
  ("Root.formReflectArgs", "d5fdfd091c17"),
  ("Root.replaceArgVars", "8e6170986780"),
  ("Root.resolveField", "d8dcc1486960"),
  ("Root.resolveReflect", "15757bc1bc70"),
  ("checkReflectArgs", "3e548d39715f")
]

theorem C04_arg_skeleton_pinned : Gen.argSkeleton = pinnedArgSkeleton := by decide

end Ggql.Args
