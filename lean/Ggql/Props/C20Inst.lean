/-
C20 instantiated on the regenerated lock table: the four registry blocks are critical sections of one
mutex, so `Props/C20.lean`'s block interleavings are the executions, and the registry is race- and
deadlock-free at lock-discipline level.
-/
import Ggql.Props.C20
import Ggql.Props.Locks
import Ggql.Gen.Locks
namespace Ggql.LockTable

/-- **C20_registry_guarded.**  Every read and write of `root.subscriptions` anywhere in the package is
made while holding `root.subLock`. -/
theorem C20_registry_guarded : (registryAccesses Gen.lockTable).all Access.guarded = true := by decide

/-- the registry is accessed at all, and written, only in the four block functions -/
theorem C20_registry_sites :
    ((registryAccesses Gen.lockTable).map (·.fn)).eraseDups = ["AddEvent", "Unsubscribe", "subscribe"] := by decide

/-- **C20_no_nested_registry_lock.**  `subLock` is never acquired while any mutex is held (no
self-deadlock inside the package, and it is the lowest-ranked mutex for `C12_lock_order`). -/
theorem C20_no_nested_registry_lock :
    (Gen.acquireTable.filter (fun a => a.mutex == .subLock)).all (fun a => a.held.isEmpty) = true := by decide

/-- Callbacks invoked while holding `subLock` (D39, a re-entrancy limit, not a concurrency defect): a
subscriber whose `Send`/`Match`/`Unsubscribe` calls back into `Root.Unsubscribe`/`AddEvent`
self-deadlocks.  The theorem pins the set so that a new callback under the lock is noticed. -/
theorem C20_callbacks_under_lock :
    (Gen.callbacksUnderLock.filter (fun c => c.mutex == .subLock)).map (fun c => (c.fn, c.callee)) =
      [("AddEvent", "Subscriber.Match"), ("AddEvent", "Subscriber.Send"), ("AddEvent", "Subscriber.Unsubscribe"),
       ("Unsubscribe", "Subscriber.Match"), ("Unsubscribe", "Subscriber.Unsubscribe")] := by decide

end Ggql.LockTable
