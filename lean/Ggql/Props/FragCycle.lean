/-
C03 — "self-referential fragments": the cycle check of `executable.go: validateFragmentCycles`.

Resolving a fragment spread recurses into the fragment; nothing but this validation stands between a request
whose fragments spread each other in a cycle and a stack overflow (D02, repaired in /repo by adding the check).
The Go code is a depth-first walk with three states per fragment (unseen, `visiting`, `done`), run from every
fragment in name order with the `done` marks kept across the walks; a walk that meets a `visiting` fragment
reports a cycle.

Model: `visit` / `checkAll` below (the function bodies the model was written against are pinned by hash in
`C03Inst.pinnedSkeleton`; random fragment graphs are run through the real code by the correspondence).

`C03_cycle_check_sound` : if no walk reports a cycle then nothing reachable from any of the fragments lies on a
cycle — for every spread graph, every order of the fragments and every amount of fuel (running out of fuel
reports a cycle, so it can only make the check stricter).
-/
namespace Ggql.FragCycle

/-- fragment name ↦ the fragments it spreads (at any depth of its selection set) -/
abbrev G := List (String × List String)

def succs (g : G) (n : String) : List String :=
  match g.find? (fun e => e.1 == n) with
  | some e => e.2
  | none => []

structure S where
  visiting : List String := []
  done : List String := []

/-- `visit`: (state, cyclic) -/
def visit (g : G) : Nat → S → String → S × Bool
  | 0, s, _ => (s, true)
  | fuel + 1, s, f =>
    if s.visiting.contains f then (s, true)
    else if s.done.contains f then (s, false)
    else
      let r := (succs g f).foldl
        (fun (acc : S × Bool) c => if acc.2 then acc else visit g fuel acc.1 c)
        ({ s with visiting := f :: s.visiting }, false)
      ({ visiting := s.visiting, done := f :: r.1.done }, r.2)

/-- the loop over the fragments (by name); the Bool: some walk reported a cycle -/
def checkAll (g : G) (fuel : Nat) : S → List String → S × Bool
  | s, [] => (s, false)
  | s, n :: ns =>
    let r := visit g fuel s n
    let r2 := checkAll g fuel r.1 ns
    (r2.1, r.2 || r2.2)

/-- the fragments the loop reports ("fragment F spreads itself"), in loop order -/
def reported (g : G) (fuel : Nat) : S → List String → List String
  | _, [] => []
  | s, n :: ns =>
    let r := visit g fuel s n
    (if r.2 then [n] else []) ++ reported g fuel r.1 ns

theorem reported_nil (g : G) (fuel : Nat) : ∀ (names : List String) (s : S),
    reported g fuel s names = [] → (checkAll g fuel s names).2 = false := by
  intro names
  induction names with
  | nil => intro s _; rfl
  | cons n ns ih =>
    intro s h
    simp only [reported, List.append_eq_nil_iff] at h
    simp only [checkAll, Bool.or_eq_false_iff]
    constructor
    · cases hv : (visit g fuel s n).2 with
      | false => rfl
      | true => simp [hv] at h
    · exact ih _ h.2

/-- one or more spread steps -/
inductive Reach (g : G) : String → String → Prop
  | step {a b : String} : b ∈ succs g a → Reach g a b
  | trans {a b c : String} : b ∈ succs g a → Reach g b c → Reach g a c

def Closed (g : G) (d : List String) : Prop := ∀ n ∈ d, ∀ m ∈ succs g n, m ∈ d
def Acyc (g : G) (d : List String) : Prop := ∀ n ∈ d, ¬ Reach g n n

theorem closed_reach {g : G} {d : List String} (hc : Closed g d) {a b : String} (ha : a ∈ d) (h : Reach g a b) : b ∈ d := by
  induction h with
  | step hs => exact hc _ ha _ hs
  | trans hs _ ih => exact ih (hc _ ha _ hs)

/-- what a walk that reports nothing guarantees, from a state whose `done` set is closed and acyclic and disjoint
from the `visiting` chain -/
structure Post (g : G) (s s' : S) : Prop where
  visiting_eq : s'.visiting = s.visiting
  mono : ∀ n ∈ s.done, n ∈ s'.done
  fresh : ∀ n ∈ s'.done, n ∈ s.done ∨ n ∉ s.visiting
  closed : Closed g s'.done
  acyc : Acyc g s'.done

structure Inv (g : G) (s : S) : Prop where
  closed : Closed g s.done
  acyc : Acyc g s.done
  disj : ∀ n ∈ s.visiting, n ∉ s.done

theorem post_inv {g : G} {s s' : S} (hi : Inv g s) (hp : Post g s s') : Inv g s' :=
  ⟨hp.closed, hp.acyc, by
    intro n hn hd
    rw [hp.visiting_eq] at hn
    rcases hp.fresh n hd with h | h
    · exact hi.disj n hn h
    · exact h hn⟩

theorem post_refl {g : G} {s : S} (hi : Inv g s) : Post g s s :=
  ⟨rfl, fun _ h => h, fun _ h => Or.inl h, hi.closed, hi.acyc⟩

theorem post_trans {g : G} {s s1 s2 : S} (h1 : Post g s s1) (h2 : Post g s1 s2) : Post g s s2 :=
  ⟨h2.visiting_eq.trans h1.visiting_eq, fun n h => h2.mono n (h1.mono n h), by
    intro n hn
    rcases h2.fresh n hn with h | h
    · exact h1.fresh n h
    · right; rw [← h1.visiting_eq]; exact h,
   h2.closed, h2.acyc⟩

/-- the fold over the spreads of one fragment -/
theorem fold_sound (g : G) (fuel : Nat)
    (ih : ∀ (s : S) (f : String) (s' : S), Inv g s → visit g fuel s f = (s', false) → Post g s s' ∧ f ∈ s'.done) :
    ∀ (cs : List String) (s : S) (s' : S), Inv g s →
      cs.foldl (fun (acc : S × Bool) c => if acc.2 then acc else visit g fuel acc.1 c) (s, false) = (s', false) →
      Post g s s' ∧ ∀ c ∈ cs, c ∈ s'.done := by
  intro cs
  induction cs with
  | nil =>
    intro s s' hi h
    simp only [List.foldl_nil, Prod.mk.injEq, and_true] at h
    subst h
    exact ⟨post_refl hi, by simp⟩
  | cons c cs ihc =>
    intro s s' hi h
    simp only [List.foldl_cons, Bool.false_eq_true, if_false] at h
    rcases hv : visit g fuel s c with ⟨s1, r1⟩
    rw [hv] at h
    cases r1 with
    | true =>
      -- once true the fold stays true
      have stay : ∀ (l : List String) (a : S), l.foldl (fun (acc : S × Bool) c => if acc.2 then acc else visit g fuel acc.1 c) (a, true) = (a, true) := by
        intro l; induction l with
        | nil => intro a; rfl
        | cons x xs ihx => intro a; simp only [List.foldl_cons, if_true]; exact ihx a
      rw [stay] at h
      cases h
    | false =>
      obtain ⟨hp1, hc1⟩ := ih s c s1 hi hv
      obtain ⟨hp2, hrest⟩ := ihc s1 s' (post_inv hi hp1) h
      refine ⟨post_trans hp1 hp2, ?_⟩
      intro x hx
      rcases List.mem_cons.mp hx with rfl | hx
      · exact hp2.mono _ hc1
      · exact hrest x hx

/-- **visit_sound.** -/
theorem visit_sound (g : G) : ∀ (fuel : Nat) (s : S) (f : String) (s' : S), Inv g s → visit g fuel s f = (s', false) →
    Post g s s' ∧ f ∈ s'.done
  | 0, s, f, s', _, h => by simp [visit] at h
  | fuel + 1, s, f, s', hi, h => by
    unfold visit at h
    simp only [List.contains_iff_mem] at h
    by_cases hv : f ∈ s.visiting
    · simp [hv] at h
    · simp only [hv, if_false] at h
      by_cases hd : f ∈ s.done
      · simp only [hd, if_true, Prod.mk.injEq, and_true] at h
        subst h
        exact ⟨post_refl hi, hd⟩
      · simp only [hd, if_false] at h
        rcases hf : (succs g f).foldl (fun (acc : S × Bool) c => if acc.2 then acc else visit g fuel acc.1 c)
            ({ s with visiting := f :: s.visiting }, false) with ⟨s1, r1⟩
        rw [hf] at h
        simp only [Prod.mk.injEq] at h
        obtain ⟨hs', hr⟩ := h
        subst hr
        have hfv : f ∉ s.visiting := hv
        have hfd : f ∉ s.done := hd
        have hi0 : Inv g { s with visiting := f :: s.visiting } :=
          ⟨hi.closed, hi.acyc, by
            intro n hn
            rcases List.mem_cons.mp hn with rfl | hn
            · exact hfd
            · exact hi.disj n hn⟩
        obtain ⟨hp, hall⟩ := fold_sound g fuel (visit_sound g fuel) (succs g f) _ s1 hi0 hf
        -- f itself was not marked during the walk: it was on the visiting chain
        have hf1 : f ∉ s1.done := by
          intro hmem
          rcases hp.fresh f hmem with h | h
          · exact hfd h
          · exact h (List.mem_cons_self ..)
        subst hs'
        refine ⟨⟨rfl, ?_, ?_, ?_, ?_⟩, List.mem_cons_self ..⟩
        · intro n hn; exact List.mem_cons_of_mem _ (hp.mono n hn)
        · intro n hn
          rcases List.mem_cons.mp hn with rfl | hn
          · exact Or.inr hfv
          · rcases hp.fresh n hn with h | h
            · exact Or.inl h
            · right; intro hnv; exact h (List.mem_cons_of_mem _ hnv)
        · -- closed
          intro n hn m hm
          rcases List.mem_cons.mp hn with rfl | hn
          · exact List.mem_cons_of_mem _ (hall m hm)
          · exact List.mem_cons_of_mem _ (hp.closed n hn m hm)
        · -- acyclic
          intro n hn hcyc
          rcases List.mem_cons.mp hn with rfl | hn
          · -- a cycle through f leaves f by a spread into the closed set s1.done, and never comes back
            cases hcyc with
            | step hs => exact hf1 (hall _ hs)
            | trans hs hr => exact hf1 (closed_reach hp.closed (hall _ hs) hr)
          · exact hp.acyc n hn hcyc

theorem checkAll_sound (g : G) (fuel : Nat) : ∀ (names : List String) (s s' : S), Inv g s →
    checkAll g fuel s names = (s', false) → Inv g s' ∧ (∀ n ∈ s.done, n ∈ s'.done) ∧ ∀ n ∈ names, n ∈ s'.done := by
  intro names
  induction names with
  | nil =>
    intro s s' hi h
    simp only [checkAll, Prod.mk.injEq, and_true] at h
    subst h
    exact ⟨hi, fun _ h => h, by simp⟩
  | cons n ns ih =>
    intro s s' hi h
    simp only [checkAll] at h
    rcases hv : visit g fuel s n with ⟨s1, r1⟩
    rcases hc : checkAll g fuel s1 ns with ⟨s2, r2⟩
    rw [hv] at h
    simp only [hc, Prod.mk.injEq, Bool.or_eq_false_iff] at h
    obtain ⟨hs, hr1, hr2⟩ := h
    subst hs hr1 hr2
    obtain ⟨hp, hn⟩ := visit_sound g fuel s n s1 hi hv
    obtain ⟨hi2, hmono, hrest⟩ := ih s1 s2 (post_inv hi hp) hc
    refine ⟨hi2, fun x hx => hmono x (hp.mono x hx), ?_⟩
    intro x hx
    rcases List.mem_cons.mp hx with rfl | hx
    · exact hmono _ hn
    · exact hrest x hx

/-- **C03_cycle_check_sound.**  If the walks from all the fragments report no cycle, no fragment — and nothing a
fragment reaches through spreads — lies on a cycle of spreads: resolving any spread of the request terminates. -/
theorem C03_cycle_check_sound (g : G) (fuel : Nat) (names : List String)
    (h : (checkAll g fuel {} names).2 = false) :
    ∀ n ∈ names, ¬ Reach g n n ∧ ∀ m, Reach g n m → ¬ Reach g m m := by
  rcases hc : checkAll g fuel {} names with ⟨s', r⟩
  rw [hc] at h
  simp only at h
  subst h
  have hi0 : Inv g ({} : S) := ⟨(by intro n hn; cases hn), (by intro n hn; cases hn), (by intro n hn; cases hn)⟩
  obtain ⟨hi, _, hall⟩ := checkAll_sound g fuel names {} s' hi0 hc
  intro n hn
  refine ⟨hi.acyc n (hall n hn), ?_⟩
  intro m hr
  exact hi.acyc m (closed_reach hi.closed (hall n hn) hr)

/-- the witnesses: a cycle behind a lead-in fragment that sorts first is reported (the walk from `Entry` marks
`Loop` done only after having met it again while `visiting`), and an acyclic diamond is not -/
example : (checkAll [("Entry", ["Loop"]), ("Loop", ["Loop"])] 10 {} ["Entry", "Loop"]).2 = true := by decide
example : (checkAll [("A", ["B", "C"]), ("B", ["D"]), ("C", ["D"]), ("D", [])] 10 {} ["A", "B", "C", "D"]).2 = false := by decide

end Ggql.FragCycle
