/-
C16 — a schema means the same however its definitions are ordered or split (type-table level).

`C16_perm`: any two orders of a definition set with distinct names give the same type table.
`C16_split`: successive loads give the table of the single concatenated load.  Together: every
partition of every permutation gives one table.  The operation roots are where the code deviates
(D34): they are bound when the first load completes.
-/
import Ggql.Model.Load
namespace Ggql.Load

theorem insert_perm (d : Def) (l : List Def) : (insert d l).Perm (d :: l) := by
  induction l with
  | nil => exact List.Perm.refl _
  | cons x xs ih =>
    simp only [insert]
    split
    · exact List.Perm.refl _
    · exact (List.Perm.cons x ih).trans (List.Perm.swap d x xs)

theorem mem_insert (d x : Def) (l : List Def) : x ∈ insert d l ↔ x = d ∨ x ∈ l := by
  rw [(insert_perm d l).mem_iff]; simp

def Sorted (l : List Def) : Prop := l.Pairwise (fun a b => a.key < b.key)

theorem insert_sorted (d : Def) (l : List Def) (hs : Sorted l) (hd : ∀ x ∈ l, x.key ≠ d.key) : Sorted (insert d l) := by
  induction l with
  | nil => simp [insert, Sorted]
  | cons x xs ih =>
    simp only [Sorted, List.pairwise_cons] at hs
    simp only [insert]
    split
    · rename_i hlt
      simp only [Sorted, List.pairwise_cons, List.mem_cons]
      refine ⟨?_, hs.1, hs.2⟩
      intro y hy
      rcases hy with rfl | hy
      · exact hlt
      · exact Nat.lt_trans hlt (hs.1 y hy)
    · rename_i hnlt
      have hne : x.key ≠ d.key := hd x (List.mem_cons_self ..)
      have hxd : x.key < d.key := by omega
      simp only [Sorted, List.pairwise_cons]
      refine ⟨?_, ih hs.2 (fun y hy => hd y (List.mem_cons_of_mem _ hy))⟩
      intro y hy
      rw [mem_insert] at hy
      rcases hy with rfl | hy
      · exact hxd
      · exact hs.1 y hy

theorem addAll_perm (tl ds : List Def) : (addAll tl ds).Perm (ds.reverse ++ tl) := by
  induction ds generalizing tl with
  | nil => simp [addAll]
  | cons d ds ih =>
    simp only [addAll, List.foldl_cons] at ih ⊢
    refine (ih (insert d tl)).trans ?_
    simp only [List.reverse_cons, List.append_assoc, List.singleton_append]
    exact List.Perm.append_left _ (insert_perm d tl)

theorem addAll_sorted (tl ds : List Def) (hs : Sorted tl) (hnd : ((tl ++ ds).map (·.key)).Nodup) : Sorted (addAll tl ds) := by
  induction ds generalizing tl with
  | nil => simpa [addAll] using hs
  | cons d ds ih =>
    simp only [addAll, List.foldl_cons]
    have hnd' : (tl.map (·.key) ++ d.key :: ds.map (·.key)).Nodup := by simpa using hnd
    have hdk : ∀ x ∈ tl, x.key ≠ d.key := by
      intro x hx heq
      have := (List.nodup_append.mp hnd').2.2 x.key (List.mem_map.mpr ⟨x, hx, rfl⟩) d.key (List.mem_cons_self ..)
      exact this heq
    apply ih (insert d tl) (insert_sorted d tl hs hdk)
    have hp : ((insert d tl ++ ds).map (·.key)).Perm ((tl ++ d :: ds).map (·.key)) := by
      apply List.Perm.map
      exact ((insert_perm d tl).append_right ds).trans (by simpa using (List.perm_middle (l₁ := tl) (a := d) (l₂ := ds)).symm)
    exact hp.symm.nodup (by simpa using hnd')

/-- a sorted list over distinct keys is determined by its elements -/
theorem sorted_perm_eq (l₁ l₂ : List Def) (h₁ : Sorted l₁) (h₂ : Sorted l₂) (hp : l₁.Perm l₂) : l₁ = l₂ := by
  refine List.Perm.eq_of_pairwise (le := fun (a b : Def) => a.key < b.key) ?_ h₁ h₂ hp
  intro a b _ _ hab hba
  exact absurd hab (by omega)

/-- **C16_perm.**  Definitions with distinct names (keys) loaded in any two orders give the same type
table — any size, any permutation. -/
theorem C16_perm (ds₁ ds₂ : List Def) (hp : ds₁.Perm ds₂) (hnd : (ds₁.map (·.key)).Nodup) :
    addAll [] ds₁ = addAll [] ds₂ := by
  have hnd₂ : (ds₂.map (·.key)).Nodup := (hp.map _).nodup hnd
  apply sorted_perm_eq
  · exact addAll_sorted [] ds₁ (by simp [Sorted]) (by simpa using hnd)
  · exact addAll_sorted [] ds₂ (by simp [Sorted]) (by simpa using hnd₂)
  · refine (addAll_perm [] ds₁).trans ?_
    refine List.Perm.trans ?_ (addAll_perm [] ds₂).symm
    simp only [List.append_nil]
    exact (List.reverse_perm ds₁).trans (hp.trans (List.reverse_perm ds₂).symm)

/-- **C16_split.**  Successive loads build the table of the single load of the concatenated document. -/
theorem C16_split (tl : List Def) (docs : List (List Def)) : loads tl docs = addAll tl docs.flatten := by
  induction docs generalizing tl with
  | nil => rfl
  | cons d ds ih =>
    simp only [loads, List.foldl_cons, List.flatten_cons] at ih ⊢
    rw [ih]
    simp [addAll, List.foldl_append]

/-- **C16_arrangements.**  Any partition of any permutation of a definition set with distinct names
gives the table of the one-document load. -/
theorem C16_arrangements (ds : List Def) (docs : List (List Def)) (hp : docs.flatten.Perm ds) (hnd : (ds.map (·.key)).Nodup) :
    loads [] docs = addAll [] ds := by
  rw [C16_split]
  exact C16_perm _ _ hp ((hp.map _).symm.nodup hnd)

theorem loadAll_types (cfg : Cfg) (q : Nat) (docs : List (List Def)) (st : State) :
    (docs.foldl (loadDoc cfg q) st).types = loads st.types docs := by
  induction docs generalizing st with
  | nil => rfl
  | cons d ds ih =>
    simp only [List.foldl_cons, loads] at ih ⊢
    rw [ih]
    simp only [loadDoc]
    split <;> rfl

/-- **C16_dev_roots (D34).**  The operation roots depend on the split: the same two definitions bind the
query root when loaded together, and do not when the `Query` type arrives in a second load. -/
theorem C16_dev_roots :
    (loadAll {} 1 [[⟨5, 0⟩, ⟨1, 1⟩]]).hasQuery = true ∧ (loadAll {} 1 [[⟨5, 0⟩], [⟨1, 1⟩]]).hasQuery = false ∧
    (loadAll { assureOnce := false } 1 [[⟨5, 0⟩], [⟨1, 1⟩]]).hasQuery = true := by decide

/-- non-vacuity: three definitions, two arrangements, one table -/
example : loads [] [[⟨7, 0⟩], [⟨3, 1⟩, ⟨5, 2⟩]] = addAll [] [⟨5, 2⟩, ⟨7, 0⟩, ⟨3, 1⟩] := by decide

end Ggql.Load
