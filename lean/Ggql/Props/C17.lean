/-
C17 — introspection reports the loaded schema faithfully.

* `C17_graph_faithful`: a table with the specification's arms makes every schema node answer every
  meta-field exactly as §4 of the specification describes it — for all schemas, nodes, meta-fields and
  `includeDeprecated` values.
* `C17_full`: hence the response to every introspection request is the specification's.
* structural facts of the specification itself (so that it is not vacuous): `unroll_faithful` (the
  kind / ofType chain determines the type expression), `fields_filter`, `possibleTypes_iff`,
  `type_unknown_null`.
* `C17_strategy_independent`: the answer does not depend on whether the application installed a root
  (any) resolver, provided no arm hands out a plain Go slice of nodes; `C17_dev_any` (D37) is the
  witness that the current table does.
The instance theorems over the regenerated table are in `C17Inst.lean`.
-/
import Ggql.Spec.Describe
namespace Ggql.Intro

theorem got_named_some {S : Schema} {nm : String} {d : Def} (h : S.find nm = some d) :
    (Node.type (.named nm)).got S = some d.got := by
  simp [Node.got, h]

theorem find_name {S : Schema} {nm : String} {d : Def} (h : S.find nm = some d) : d.name = nm := by
  unfold Schema.find at h
  have := List.find?_some h
  simpa using this

/-- **C17_graph_faithful.** -/
theorem C17_graph_faithful (S : Schema) (n : Node) (mf : MF) (inc : Bool) :
    fetch specCfg specArm S n mf inc = describe S n mf inc := by
  cases n with
  | schema => cases mf <;> simp [fetch, Node.got, specArm, interp, describe, typeCommon, optType] <;> (cases S.query <;> rfl) 
  | type t =>
    cases t with
    | list b => cases mf <;> simp [fetch, Node.got, specArm, interp, describe, describeWrapper, typeCommon]
    | nonNull b => cases mf <;> simp [fetch, Node.got, specArm, interp, describe, describeWrapper, typeCommon]
    | named nm =>
      cases h : S.find nm with
      | none => simp [fetch, Node.got, h, describe]
      | some d =>
        have hn := find_name h
        cases d <;> cases mf <;>
          simp_all [fetch, Node.got, specArm, interp, describe, describeNamed, typeCommon, Node.def?, Def.got,
            specCfg, specLocate, kindOf, Node.name, TRef.text, Def.name, Def.desc, Node.desc]
  | field f => cases mf <;> simp [fetch, Node.got, specArm, interp, describe, Node.name, Node.desc, Node.dep, depReason, specCfg] <;> (cases f.dep <;> rfl)
  | inval v a => cases a <;> cases mf <;> simp [fetch, Node.got, specArm, interp, describe, Node.name, Node.desc]
  | enumv e => cases mf <;> simp [fetch, Node.got, specArm, interp, describe, Node.name, Node.desc, Node.dep, depReason, specCfg] <;> (cases e.dep <;> rfl)
  | dir d => cases mf <;> simp [fetch, Node.got, specArm, interp, describe, Node.name, Node.desc]

/-- **C17_full.**  With the specification's table, list completion and entry points, the response to
every introspection request over every schema is the specification's answer. -/
theorem C17_full (S : Schema) (q : List Top) :
    run (fetch specCfg specArm S) specComplete S none q = introspect S q := by
  have h : fetch specCfg specArm S = describe S := by
    funext n mf inc; exact C17_graph_faithful S n mf inc
  simp [introspect, h]

/-! ### the specification is not vacuous: structural facts about `describe` -/

def TRef.depth : TRef → Nat
  | .named _ => 0
  | .list t => t.depth + 1
  | .nonNull t => t.depth + 1

/-- read a type expression back from the `kind` / `name` / `ofType` chain a client sees -/
def readType (F : Node → MF → Bool → Res) : Nat → Node → Option TRef
  | 0, _ => none
  | fuel + 1, n =>
    match F n .kind false with
    | .str k =>
      if k == "LIST" then
        (match F n .ofType false with
         | .node m => (readType F fuel m).map .list
         | _ => none)
      else if k == "NON_NULL" then
        (match F n .ofType false with
         | .node m => (readType F fuel m).map .nonNull
         | _ => none)
      else
        (match F n .name false with
         | .str nm => some (.named nm)
         | _ => none)
    | _ => none

theorem filter_true {α} (xs : List α) : xs.filter (fun _ => true) = xs := by
  induction xs with
  | nil => rfl
  | cons x xs ih => simp [List.filter, ih]

theorem kindOf_named_ne (S : Schema) (nm : String) (d : Def) (h : S.find nm = some d) :
    ∃ k, kindOf S (.named nm) = some k ∧ (k == "LIST") = false ∧ (k == "NON_NULL") = false := by
  cases d <;> simp [kindOf, h] <;> decide

/-- **unroll_faithful.**  For every type expression over a defined base type, the wrappers unrolled
through `ofType` give back exactly that expression — at any nesting depth. -/
theorem unroll_faithful (S : Schema) (t : TRef) (d : Def) (h : S.find t.baseName = some d)
    (fuel : Nat) (hf : t.depth < fuel) :
    readType (describe S) fuel (.type t) = some t := by
  induction t generalizing fuel with
  | named nm =>
    cases fuel with
    | zero => omega
    | succ f =>
      simp only [TRef.baseName] at h
      obtain ⟨k, hk, h1, h2⟩ := kindOf_named_ne S nm d h
      have hn := find_name h
      simp [readType, describe, h, describeNamed, hn, hk, h1, h2]
  | list b ih =>
    cases fuel with
    | zero => omega
    | succ f =>
      simp only [TRef.baseName] at h
      simp only [TRef.depth] at hf
      have := ih h f (by omega)
      simp [readType, describe, describeWrapper, this]
  | nonNull b ih =>
    cases fuel with
    | zero => omega
    | succ f =>
      simp only [TRef.baseName] at h
      simp only [TRef.depth] at hf
      have := ih h f (by omega)
      simp [readType, describe, describeWrapper, this]

/-- **fields_filter.**  `fields(includeDeprecated: true)` is the declared field list;
`fields` / `fields(includeDeprecated: false)` is exactly its non-deprecated part. -/
theorem fields_filter (S : Schema) (nm desc : String) (is : List String) (fs : List FieldD)
    (h : S.find nm = some (.object nm desc is fs)) :
    describe S (.type (.named nm)) .fields true = .nodes .resolver (fs.map .field) ∧
    describe S (.type (.named nm)) .fields false =
      .nodes .resolver ((fs.filter (fun f => !f.dep.is)).map .field) := by
  simp [describe, h, describeNamed, filter_true]

theorem enumValues_filter (S : Schema) (nm desc : String) (vs : List EnumV)
    (h : S.find nm = some (.enum nm desc vs)) :
    describe S (.type (.named nm)) .enumValues true = .nodes .resolver (vs.map .enumv) ∧
    describe S (.type (.named nm)) .enumValues false =
      .nodes .resolver ((vs.filter (fun v => !v.dep.is)).map .enumv) := by
  simp [describe, h, describeNamed, filter_true]

/-- **possibleTypes_iff.**  The possible types of an interface are exactly the objects of the schema
that list it. -/
theorem possibleTypes_iff (S : Schema) (i o : String) :
    o ∈ implementers S i ↔ ∃ desc is fs, Def.object o desc is fs ∈ S.types ∧ i ∈ is := by
  unfold implementers
  simp only [List.mem_filterMap]
  constructor
  · rintro ⟨d, hd, hm⟩
    cases d <;> simp at hm
    case object n ds is fs =>
      obtain ⟨hc, rfl⟩ := hm
      exact ⟨ds, is, fs, hd, by simpa using hc⟩
  · rintro ⟨ds, is, fs, hd, hi⟩
    exact ⟨_, hd, by simp [hi]⟩

/-- **type_unknown_null.**  `__type` on a name nothing defines is null, without an error. -/
theorem type_unknown_null (F : Node → MF → Bool → Res) (c : Complete) (S : Schema) (key name : String)
    (subs : List ISel) (h : S.find name = none) :
    runTop F c S none (.type key name subs) = (some (key, .null), 0) := by
  simp [runTop, h]

/-! ### independence of the application's resolver strategy -/

/-- no node hands out a plain Go slice of nodes -/
def PlainFree (F : Node → MF → Bool → Res) : Prop :=
  ∀ n mf inc ms, F n mf inc ≠ .nodes .plain ms

mutual
  theorem walkSel_any (F : Node → MF → Bool → Res) (c c' : Complete) (hF : PlainFree F)
      (he : c.emptyResolverIsNull = c'.emptyResolverIsNull) :
      ∀ (s : ISel) (n : Node), walkSel F c s n = walkSel F c' s n
    | .typename key, n => by simp [walkSel]
    | .mk key mf inc subs, n => by
      have ih := walkSels_any F c c' hF he subs
      simp only [walkSel]
      cases hr : F n mf inc with
      | nodes v ms =>
        cases v with
        | plain => exact absurd hr (hF n mf inc ms)
        | resolver => simp [ih, he]
      | _ => simp [ih]
  theorem walkSels_any (F : Node → MF → Bool → Res) (c c' : Complete) (hF : PlainFree F)
      (he : c.emptyResolverIsNull = c'.emptyResolverIsNull) :
      ∀ (ss : List ISel) (n : Node), walkSels F c ss n = walkSels F c' ss n
    | [], n => by simp [walkSels]
    | s :: rest, n => by
      simp [walkSels, walkSel_any F c c' hF he s n, walkSels_any F c c' hF he rest n]
end

/-- **C17_strategy_independent.**  When no node answers with a plain slice, the response is the same
whether or not the application installed a root (any) resolver, and whatever that resolver does. -/
theorem C17_strategy_independent (F : Node → MF → Bool → Res) (c c' : Complete) (hF : PlainFree F)
    (he : c.emptyResolverIsNull = c'.emptyResolverIsNull) (S : Schema) (lit : Option String) (q : List Top) :
    run F c S lit q = run F c' S lit q := by
  have h : runTop F c S lit = runTop F c' S lit := by
    funext t
    cases t <;> simp [runTop, walkSels_any F c c' hF he]
  simp [run, h]

theorem describe_plainFree (S : Schema) : PlainFree (describe S) := by
  intro n mf inc ms
  cases n with
  | schema => cases mf <;> simp [describe, optType] <;> (split <;> simp)
  | type t =>
    cases t with
    | list b => cases mf <;> simp [describe, describeWrapper]
    | nonNull b => cases mf <;> simp [describe, describeWrapper]
    | named nm =>
      cases h : S.find nm with
      | none => simp [describe, h]
      | some d => cases d <;> cases mf <;> simp [describe, h, describeNamed] <;> (split <;> simp)
  | field f => cases mf <;> simp [describe, depReason] <;> (split <;> simp)
  | inval v a => cases mf <;> simp [describe]
  | enumv e => cases mf <;> simp [describe, depReason] <;> (split <;> simp)
  | dir d => cases mf <;> simp [describe]

/-- the specification's answer does not depend on the application's strategy -/
theorem C17_spec_strategy_independent (S : Schema) (c : Complete) (hc : c.emptyResolverIsNull = false)
    (q : List Top) : run (describe S) c S none q = introspect S q := by
  unfold introspect
  exact C17_strategy_independent (describe S) c specComplete (describe_plainFree S) (by simp [hc, specComplete]) S none q

end Ggql.Intro
