/-
C05 (and the leaf level of C04) instantiated on the coercion tables regenerated from the eight scalar
files on this run.  For each table: every arm that fails the soundness test is one of the pinned,
known deviations — so `C05_leaf` / `C04_leaf` apply to every other arm — and the `formatTime` flag is
as the leaf theorems need it.
-/
import Ggql.Props.C04
import Ggql.Props.C05Data
import Ggql.Gen.Coerce
namespace Ggql.Coerce

/-- `CoerceIn`: no pinned deviation is left.  D08 (Int arguments narrowed without a range check) and D46
(Float arguments overflowing to ±Inf, non-finite values passed through) are repaired: every arm of every
built-in scalar's `CoerceIn` passes the soundness test. -/
def pinnedIn : Scalar → List (Kind × Action)
  | _ => []

def outTable : Scalar → Table
  | .int => Gen.coerceOutInt | .int64 => Gen.coerceOutInt64 | .float => Gen.coerceOutFloat
  | .float64 => Gen.coerceOutFloat64 | .string => Gen.coerceOutString | .id => Gen.coerceOutId
  | .boolean => Gen.coerceOutBoolean | .time => Gen.coerceOutTime

def inTable : Scalar → Table
  | .int => Gen.coerceInInt | .int64 => Gen.coerceInInt64 | .float => Gen.coerceInFloat
  | .float64 => Gen.coerceInFloat64 | .string => Gen.coerceInString | .id => Gen.coerceInId
  | .boolean => Gen.coerceInBoolean | .time => Gen.coerceInTime

def allScalars : List Scalar := [.int, .int64, .float, .float64, .string, .id, .boolean, .time]

/-- What is still unsound at the response level (the leaf branch of `resolve` drops the value on a
`CoerceOut` error: D15 repaired; integer narrowings range-checked and String/ID ← unsigned printed
unsigned: integer part of D16 and D48 repaired): the float arms of Int / Int64 (D16): Int ← float truncates
fractions (pinned by the repository's own tests) and is unchecked for range.  The Float / Float64 arms are
finiteness-checked now. -/
def pinnedOutR : Scalar → List (Kind × Action)
  | .int => [(.f32, .convTrunc .i32), (.f64, .convTrunc .i32)]
  | .int64 => [(.f32, .convTrunc .i64), (.f64, .convTrunc .i64)]
  | .float => []
  | .float64 => []
  | .string => []
  | .id => []
  | .boolean => []
  | .time => []

/-- **C05_tables.**  With the leaf branch as read from `resolve` on this run, every `CoerceOut` arm of the
current source that is unsound at the response level is a pinned deviation, the default arm of every
scalar rejects with null, and only the time scalar formats after the switch. -/
theorem C05_tables :
    allScalars.all (fun s =>
      (unsoundOutR Gen.leafErrNulls s (outTable s)).all (fun p => (pinnedOutR s).contains p) &&
      ((outTable s).dflt == .failNil) && ((outTable s).formatTime == (s == .time))) = true := by decide

theorem outTable_formatTime (s : Scalar) : (outTable s).formatTime = (s == .time) := by
  cases s <;> decide

/-- **C05_current.**  `C05_data` on the tables and the leaf branch generated from the source on this
run: for every declared type, every resolver value satisfying `dataSound` (no pinned-deviation arm, no
undeclared enum name; typed slices included now that their members are resolved, D18 repaired) and every behaviour of the runtime's floats and times, the
response value is well-typed. -/
theorem C05_current {F : Type} (ext : Ext F) (laws : ExtLaws ext) (t : TRef) (d : Data F)
    (hs : dataSound outTable Gen.leafErrNulls Gen.fastSliceCopies t d = true) :
    wellTyped ext t (resolveData ext outTable Gen.leafErrNulls Gen.fastSliceCopies t d).1 = true :=
  C05_data ext laws outTable Gen.leafErrNulls Gen.fastSliceCopies outTable_formatTime t d hs

/-- non-vacuity: a list of Boolean strings, one of which does not parse, and an Int64 string are
`dataSound` on the current source -/
example : dataSound (F := Nat) outTable Gen.leafErrNulls Gen.fastSliceCopies (.list (.scalar .boolean))
    (.list [.leaf (.str "true"), .leaf (.str "nope"), .leaf .nil]) = true ∧
    dataSound (F := Nat) outTable Gen.leafErrNulls Gen.fastSliceCopies (.nonNull (.scalar .int64)) (.leaf (.str "x12")) = true ∧
    dataSound (F := Nat) outTable Gen.leafErrNulls Gen.fastSliceCopies (.list (.scalar .string))
      (.slice .fast [.int .int 1, .int .u64 18446744073709551615]) = true ∧
    dataSound (F := Nat) outTable Gen.leafErrNulls Gen.fastSliceCopies (.list (.scalar .int))
      (.list [.leaf (.int .i64 1099511627776), .leaf (.str "4294967297"), .leaf (.int .u64 7)]) = true := by decide

/-- **C04_tables.**  The same for `CoerceIn`. -/
theorem C04_tables :
    allScalars.all (fun s =>
      (unsoundIn s (inTable s)).all (fun p => (pinnedIn s).contains p) &&
      ((inTable s).dflt == .failNil) && ((inTable s).formatTime == false)) = true := by decide

/-- every arm a `CoerceIn` table can select passes the test when the table has no unsound arm and its
default arm rejects -/
theorem armFor_sound (s : Scalar) (tbl : Table) (hu : unsoundIn s tbl = []) (hd : tbl.dflt = .failNil) (k : Kind) :
    armSoundInT s k (tbl.armFor k) = true := by
  rcases armFor_mem tbl k with h | h
  · rw [h, hd]; simp [armSoundInT, armSoundIn]
  · have := List.filter_eq_nil_iff.mp hu _ h
    simpa using this

/-- **C04_current.**  On the source as it is now, unconditionally: for every built-in scalar, every
well-formed Go value (literal, JSON-decoded variable value, default) and every behaviour of the runtime's
floats, `CoerceIn` either refuses the value — the resolver is then not invoked — or yields a value of the
declared scalar that denotes what the client wrote (Int within 32 bits and equal to the supplied number,
Float finite, ID the decimal rendering). -/
theorem C04_current {F : Type} (ext : Ext F) (laws : ExtLaws ext) (s : Scalar) (v : GoVal F) (hw : v.wf = true) :
    checkIn ext s v (coerce ext (inTable s) v) = true := by
  have ht := C04_tables
  simp only [List.all_eq_true, Bool.and_eq_true, beq_iff_eq] at ht
  have hs : s ∈ allScalars := by cases s <;> simp [allScalars]
  obtain ⟨⟨hu, hd⟩, hf⟩ := ht s hs
  have hu' : unsoundIn s (inTable s) = [] := by
    apply List.eq_nil_iff_forall_not_mem.mpr
    intro p hp
    have := hu p hp
    simp [pinnedIn] at this
  exact C04_leaf ext laws s (inTable s) v (by simpa using hf) (armFor_sound s _ hu' hd v.kind) hw

/-- non-vacuity: the sound region is not empty — e.g. the Int output arms for the small integer kinds
and the Boolean/String pass-through arms pass the test on the generated tables -/
example : armSoundOutT .int .i16 (Gen.coerceOutInt.armFor .i16) = true ∧
    armSoundOutT .string .bool (Gen.coerceOutString.armFor .bool) = true ∧
    armSoundInT .int .f64 (Gen.coerceInInt.armFor .f64) = true := by decide

/-- **C05_time_range_checked.**  The number arms of the Time scalar (both directions) on this run refuse seconds that
do not fit nanoseconds in an int64, NaN and the infinities (D92 repaired: `time.Unix(0, tv*int64(time.Second))`
wrapped, so `Time ← 9999999999999` wrote a date in 2029 and an argument of that value reached the resolver as
one). -/
theorem C05_time_range_checked :
    (Gen.coerceOutTime.armFor .i64 == .timeOfIntChk && Gen.coerceOutTime.armFor .f64 == .timeOfFloatChk &&
     Gen.coerceInTime.armFor .i64 == .timeOfIntChk && Gen.coerceInTime.armFor .f64 == .timeOfFloatChk) = true := by decide

end Ggql.Coerce
