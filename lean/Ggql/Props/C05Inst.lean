/-
C05 (and the leaf level of C04) instantiated on the coercion tables regenerated from the eight scalar
files on this run.  For each table: every arm that fails the soundness test is one of the pinned,
known deviations — so `C05_leaf` / `C04_leaf` apply to every other arm — and the `formatTime` flag is
as the leaf theorems need it.
-/
import Ggql.Props.C04
import Ggql.Props.C05Data
import Ggql.Gen.Coerce
namespace Ggql.Coerce

/-- D15: `…Keep` arms leave the unconverted string in the response next to the error.
    D16: narrowing conversions of resolver values are unchecked (wrap-around, truncation of
         fractions, non-finite floats passed through, float32 overflow).
    D48: unsigned 64-bit values ≥ 2^63 are printed as negative numbers by String / ID. -/
def pinnedOut : Scalar → List (Kind × Action)
  | .int => [(.f32, .conv .i32), (.f64, .conv .i32), (.i64, .conv .i32), (.int, .conv .i32),
             (.str, .parseIntKeep .i32), (.u32, .conv .i32), (.u64, .conv .i32), (.uint, .conv .i32)]
  | .int64 => [(.f32, .conv .i64), (.f64, .conv .i64), (.str, .parseIntKeep .i64), (.u64, .conv .i64), (.uint, .conv .i64)]
  | .float => [(.f32, .asIs), (.f64, .conv .f32), (.str, .parseFloatKeep .f32)]
  | .float64 => [(.f32, .conv .f64), (.f64, .asIs), (.str, .parseFloatKeep .f64)]
  | .string => [(.u64, .fmtInt), (.uint, .fmtInt)]
  | .id => [(.u64, .fmtInt), (.uint, .fmtInt)]
  | .boolean => [(.str, .parseBoolKeep)]
  | .time => [(.str, .timeParseKeep)]

/-- D08: Int arguments are narrowed to 32 bits without a range check.
    D46: Float arguments: float64 → float32 overflow to ±Inf, non-finite values passed through. -/
def pinnedIn : Scalar → List (Kind × Action)
  | .int => []          -- D08 repaired (d98176a): the wide integer arms are range-checked
  | .float => [(.f32, .asIs), (.f64, .conv .f32)]
  | .float64 => [(.f32, .conv .f64), (.f64, .asIs), (.str, .parseFloatKeep .f64)]
  | _ => []

def outTable : Scalar → Table
  | .int => Gen.coerceOutInt | .int64 => Gen.coerceOutInt64 | .float => Gen.coerceOutFloat
  | .float64 => Gen.coerceOutFloat64 | .string => Gen.coerceOutString | .id => Gen.coerceOutId
  | .boolean => Gen.coerceOutBoolean | .time => Gen.coerceOutTime

def inTable : Scalar → Table
  | .int => Gen.coerceInInt | .int64 => Gen.coerceInInt64 | .float => Gen.coerceInFloat
  | .float64 => Gen.coerceInFloat64 | .string => Gen.coerceInString | .id => Gen.coerceInId
  | .boolean => Gen.coerceInBoolean | .time => Gen.coerceInTime

def allScalars : List Scalar := [.int, .int64, .float, .float64, .string, .id, .boolean, .time]

/-- **C05_tables.**  Every unsound `CoerceOut` arm of the current source is a pinned deviation, the
default arm of every scalar rejects with null, and only the time scalar formats after the switch. -/
theorem C05_tables :
    allScalars.all (fun s =>
      (unsoundOut s (outTable s)).all (fun p => (pinnedOut s).contains p) &&
      ((outTable s).dflt == .failNil) && ((outTable s).formatTime == (s == .time))) = true := by decide

/-- What is still unsound at the response level now that the leaf branch of `resolve` drops the value
on a `CoerceOut` error (D15 repaired): D16 (unchecked narrowing, including Int ← numeric string beyond
32 bits and Float ← "Inf"/"NaN" strings) and D48. -/
def pinnedOutR : Scalar → List (Kind × Action)
  | .int => [(.f32, .conv .i32), (.f64, .conv .i32), (.i64, .conv .i32), (.int, .conv .i32),
             (.str, .parseIntKeep .i32), (.u32, .conv .i32), (.u64, .conv .i32), (.uint, .conv .i32)]
  | .int64 => [(.f32, .conv .i64), (.f64, .conv .i64), (.u64, .conv .i64), (.uint, .conv .i64)]
  | .float => [(.f32, .asIs), (.f64, .conv .f32), (.str, .parseFloatKeep .f32)]
  | .float64 => [(.f32, .conv .f64), (.f64, .asIs), (.str, .parseFloatKeep .f64)]
  | .string => [(.u64, .fmtInt), (.uint, .fmtInt)]
  | .id => [(.u64, .fmtInt), (.uint, .fmtInt)]
  | .boolean => []
  | .time => []

/-- **C05_tables_resp.**  With the leaf branch as read from `resolve` on this run, every arm that is
unsound at the response level is a pinned deviation. -/
theorem C05_tables_resp :
    allScalars.all (fun s =>
      (unsoundOutR Gen.leafErrNulls s (outTable s)).all (fun p => (pinnedOutR s).contains p)) = true := by decide

theorem outTable_formatTime (s : Scalar) : (outTable s).formatTime = (s == .time) := by
  cases s <;> decide

/-- **C05_current.**  `C05_data` on the tables and the leaf branch generated from the source on this
run: for every declared type, every resolver value satisfying `dataSound` (no pinned-deviation arm, no
undeclared enum name; typed slices included now that their members are resolved, D18 repaired) and every behaviour of the runtime's floats and times, the
response value is well-typed. -/
theorem C05_current {F : Type} (ext : Ext F) (laws : ExtLaws ext) (t : TRef) (d : Data F)
    (hs : dataSound outTable Gen.leafErrNulls Gen.fastSliceCopies t d = true) :
    wellTyped ext t (resolveData ext outTable Gen.leafErrNulls Gen.fastSliceCopies t d).1 = true :=
  C05_data ext laws outTable Gen.leafErrNulls Gen.fastSliceCopies outTable_formatTime t d hs

/-- non-vacuity: a list of Boolean strings, one of which does not parse, and an Int64 string are
`dataSound` on the current source -/
example : dataSound (F := Nat) outTable Gen.leafErrNulls Gen.fastSliceCopies (.list (.scalar .boolean))
    (.list [.leaf (.str "true"), .leaf (.str "nope"), .leaf .nil]) = true ∧
    dataSound (F := Nat) outTable Gen.leafErrNulls Gen.fastSliceCopies (.nonNull (.scalar .int64)) (.leaf (.str "x12")) = true ∧
    dataSound (F := Nat) outTable Gen.leafErrNulls Gen.fastSliceCopies (.list (.scalar .string))
      (.slice .fast [.int .int 1, .int .int 2]) = true := by decide

/-- **C04_tables.**  The same for `CoerceIn`. -/
theorem C04_tables :
    allScalars.all (fun s =>
      (unsoundIn s (inTable s)).all (fun p => (pinnedIn s).contains p) &&
      ((inTable s).dflt == .failNil) && ((inTable s).formatTime == false)) = true := by decide

/-- non-vacuity: the sound region is not empty — e.g. the Int output arms for the small integer kinds
and the Boolean/String pass-through arms pass the test on the generated tables -/
example : armSoundOutT .int .i16 (Gen.coerceOutInt.armFor .i16) = true ∧
    armSoundOutT .string .bool (Gen.coerceOutString.armFor .bool) = true ∧
    armSoundInT .int .f64 (Gen.coerceInInt.armFor .f64) = true := by decide

end Ggql.Coerce
