/-
C05 (and the leaf level of C04) instantiated on the coercion tables regenerated from the eight scalar
files on this run.  For each table: every arm that fails the soundness test is one of the pinned,
known deviations — so `C05_leaf` / `C04_leaf` apply to every other arm — and the `formatTime` flag is
as the leaf theorems need it.
-/
import Ggql.Props.C04
import Ggql.Props.C05Data
import Ggql.Gen.Coerce
namespace Ggql.Coerce

/-- D08: Int arguments are narrowed to 32 bits without a range check.
    D46: Float arguments: float64 → float32 overflow to ±Inf, non-finite values passed through. -/
def pinnedIn : Scalar → List (Kind × Action)
  | .int => []          -- D08 repaired (d98176a): the wide integer arms are range-checked
  | .float => [(.f32, .asIs), (.f64, .conv .f32)]
  | .float64 => [(.f32, .conv .f64), (.f64, .asIs), (.str, .parseFloatKeep .f64)]
  | _ => []

def outTable : Scalar → Table
  | .int => Gen.coerceOutInt | .int64 => Gen.coerceOutInt64 | .float => Gen.coerceOutFloat
  | .float64 => Gen.coerceOutFloat64 | .string => Gen.coerceOutString | .id => Gen.coerceOutId
  | .boolean => Gen.coerceOutBoolean | .time => Gen.coerceOutTime

def inTable : Scalar → Table
  | .int => Gen.coerceInInt | .int64 => Gen.coerceInInt64 | .float => Gen.coerceInFloat
  | .float64 => Gen.coerceInFloat64 | .string => Gen.coerceInString | .id => Gen.coerceInId
  | .boolean => Gen.coerceInBoolean | .time => Gen.coerceInTime

def allScalars : List Scalar := [.int, .int64, .float, .float64, .string, .id, .boolean, .time]

/-- What is still unsound at the response level (the leaf branch of `resolve` drops the value on a
`CoerceOut` error: D15 repaired; integer narrowings range-checked and String/ID ← unsigned printed
unsigned: integer part of D16 and D48 repaired): the float arms of D16 — Int/Int64 ← float truncates
fractions (pinned by the repository's own tests) and is unchecked for range, Float ← float64 may
overflow to ±Inf, NaN/±Inf pass through, Float ← "Inf"/"NaN" strings. -/
def pinnedOutR : Scalar → List (Kind × Action)
  | .int => [(.f32, .conv .i32), (.f64, .conv .i32)]
  | .int64 => [(.f32, .conv .i64), (.f64, .conv .i64)]
  | .float => [(.f32, .asIs), (.f64, .conv .f32), (.str, .parseFloatKeep .f32)]
  | .float64 => [(.f32, .conv .f64), (.f64, .asIs), (.str, .parseFloatKeep .f64)]
  | .string => []
  | .id => []
  | .boolean => []
  | .time => []

/-- **C05_tables.**  With the leaf branch as read from `resolve` on this run, every `CoerceOut` arm of the
current source that is unsound at the response level is a pinned deviation, the default arm of every
scalar rejects with null, and only the time scalar formats after the switch. -/
theorem C05_tables :
    allScalars.all (fun s =>
      (unsoundOutR Gen.leafErrNulls s (outTable s)).all (fun p => (pinnedOutR s).contains p) &&
      ((outTable s).dflt == .failNil) && ((outTable s).formatTime == (s == .time))) = true := by decide

theorem outTable_formatTime (s : Scalar) : (outTable s).formatTime = (s == .time) := by
  cases s <;> decide

/-- **C05_current.**  `C05_data` on the tables and the leaf branch generated from the source on this
run: for every declared type, every resolver value satisfying `dataSound` (no pinned-deviation arm, no
undeclared enum name; typed slices included now that their members are resolved, D18 repaired) and every behaviour of the runtime's floats and times, the
response value is well-typed. -/
theorem C05_current {F : Type} (ext : Ext F) (laws : ExtLaws ext) (t : TRef) (d : Data F)
    (hs : dataSound outTable Gen.leafErrNulls Gen.fastSliceCopies t d = true) :
    wellTyped ext t (resolveData ext outTable Gen.leafErrNulls Gen.fastSliceCopies t d).1 = true :=
  C05_data ext laws outTable Gen.leafErrNulls Gen.fastSliceCopies outTable_formatTime t d hs

/-- non-vacuity: a list of Boolean strings, one of which does not parse, and an Int64 string are
`dataSound` on the current source -/
example : dataSound (F := Nat) outTable Gen.leafErrNulls Gen.fastSliceCopies (.list (.scalar .boolean))
    (.list [.leaf (.str "true"), .leaf (.str "nope"), .leaf .nil]) = true ∧
    dataSound (F := Nat) outTable Gen.leafErrNulls Gen.fastSliceCopies (.nonNull (.scalar .int64)) (.leaf (.str "x12")) = true ∧
    dataSound (F := Nat) outTable Gen.leafErrNulls Gen.fastSliceCopies (.list (.scalar .string))
      (.slice .fast [.int .int 1, .int .u64 18446744073709551615]) = true ∧
    dataSound (F := Nat) outTable Gen.leafErrNulls Gen.fastSliceCopies (.list (.scalar .int))
      (.list [.leaf (.int .i64 1099511627776), .leaf (.str "4294967297"), .leaf (.int .u64 7)]) = true := by decide

/-- **C04_tables.**  The same for `CoerceIn`. -/
theorem C04_tables :
    allScalars.all (fun s =>
      (unsoundIn s (inTable s)).all (fun p => (pinnedIn s).contains p) &&
      ((inTable s).dflt == .failNil) && ((inTable s).formatTime == false)) = true := by decide

/-- non-vacuity: the sound region is not empty — e.g. the Int output arms for the small integer kinds
and the Boolean/String pass-through arms pass the test on the generated tables -/
example : armSoundOutT .int .i16 (Gen.coerceOutInt.armFor .i16) = true ∧
    armSoundOutT .string .bool (Gen.coerceOutString.armFor .bool) = true ∧
    armSoundInT .int .f64 (Gen.coerceInInt.armFor .f64) = true := by decide

end Ggql.Coerce
