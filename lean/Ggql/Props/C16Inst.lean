/-
C16 on the loader form read from the source on this run (`Gen.assureOnce`, from `(*Root).assureSchema` and
its call sites in `ParseReader` / `AddTypes`).

`C16_roots` : when an implied schema picks up the default root types on every successful load (D34 repaired),
whether the query root is bound after a sequence of loads depends only on the definitions, not on how they
were split into documents or ordered: it is bound iff some document defines the `Query` type.
`C16_roots_current` instantiates it with the flag regenerated from /repo.
-/
import Ggql.Props.C16
import Ggql.Gen.Dispatch
namespace Ggql.Load

theorem mem_addAll (tl ds : List Def) (x : Def) : x ∈ addAll tl ds ↔ x ∈ tl ∨ x ∈ ds := by
  rw [(addAll_perm tl ds).mem_iff]
  simp [or_comm]

theorem any_addAll (tl ds : List Def) (q : Nat) :
    (addAll tl ds).any (fun d => d.key == q) = (tl.any (fun d => d.key == q) || ds.any (fun d => d.key == q)) := by
  rw [Bool.eq_iff_iff]
  simp only [List.any_eq_true, Bool.or_eq_true, mem_addAll]
  constructor
  · rintro ⟨x, hx | hx, hk⟩
    · exact Or.inl ⟨x, hx, hk⟩
    · exact Or.inr ⟨x, hx, hk⟩
  · rintro (⟨x, hx, hk⟩ | ⟨x, hx, hk⟩)
    · exact ⟨x, Or.inl hx, hk⟩
    · exact ⟨x, Or.inr hx, hk⟩

/-- the invariant of the repaired loader: the query root is bound iff the table holds the `Query` type -/
def RootsInv (q : Nat) (st : State) : Prop := st.hasQuery = st.types.any (fun d => d.key == q)

theorem loadDoc_inv (q : Nat) (st : State) (doc : List Def) (h : RootsInv q st) :
    RootsInv q (loadDoc { assureOnce := false } q st doc) := by
  unfold RootsInv at *
  simp only [loadDoc, Bool.and_false, Bool.false_eq_true, if_false]
  rw [h, any_addAll]
  cases st.types.any (fun d => d.key == q) <;> simp

theorem loadAll_inv (q : Nat) (docs : List (List Def)) (st : State) (h : RootsInv q st) :
    RootsInv q (docs.foldl (loadDoc { assureOnce := false } q) st) := by
  induction docs generalizing st with
  | nil => exact h
  | cons d ds ih => exact ih _ (loadDoc_inv q st d h)

/-- **C16_roots.**  Repaired loader, any number of loads of any sizes: the query root is bound iff one of the
documents defines the type with the `Query` key. -/
theorem C16_roots (q : Nat) (docs : List (List Def)) :
    (loadAll { assureOnce := false } q docs).hasQuery = docs.flatten.any (fun d => d.key == q) := by
  have h := loadAll_inv q docs {} (by simp [RootsInv])
  unfold RootsInv at h
  unfold loadAll
  rw [h, loadAll_types, C16_split, any_addAll]
  simp

/-- **C16_roots_split.**  … hence the same for every way of splitting and ordering the same definitions. -/
theorem C16_roots_split (q : Nat) (docs₁ docs₂ : List (List Def)) (hp : docs₁.flatten.Perm docs₂.flatten) :
    (loadAll { assureOnce := false } q docs₁).hasQuery = (loadAll { assureOnce := false } q docs₂).hasQuery := by
  rw [C16_roots, C16_roots]
  rw [Bool.eq_iff_iff]
  simp only [List.any_eq_true]
  constructor
  · rintro ⟨x, hx, hk⟩; exact ⟨x, hp.mem_iff.mp hx, hk⟩
  · rintro ⟨x, hx, hk⟩; exact ⟨x, hp.mem_iff.mpr hx, hk⟩

def genCfg : Cfg := { assureOnce := Gen.assureOnce }

theorem genCfg_repaired : genCfg = { assureOnce := false } := by
  have h : Gen.assureOnce = false := by decide
  simp [genCfg, h]

/-- **C16_roots_current.**  On the loader form read from /repo on this run: any two arrangements (split into
documents, order) of the same definitions agree on whether the query root is bound, and the arrangement into
one document is one of them. -/
theorem C16_roots_current (q : Nat) (docs₁ docs₂ : List (List Def)) (hp : docs₁.flatten.Perm docs₂.flatten) :
    (loadAll genCfg q docs₁).hasQuery = (loadAll genCfg q docs₂).hasQuery := by
  rw [genCfg_repaired]; exact C16_roots_split q docs₁ docs₂ hp

/-- non-vacuity: the D34 witness split now binds the root, like the single load -/
example : (loadAll genCfg 1 [[⟨5, 0⟩], [⟨1, 1⟩]]).hasQuery = true ∧ (loadAll genCfg 1 [[⟨5, 0⟩, ⟨1, 1⟩]]).hasQuery = true := by
  decide

/-- **C16_input_extend_ordered.**  `(*Input).Extend` on this run adds the fields of an extension in the order of
its list, like the other kinds (D76 repaired: it ranged over the Go map that indexes them, so the member order of
an extended input type — printed SDL, `inputFields` — changed from run to run).  The translator matches the
whole body; the order-sensitive `extend-order` cases of the correspondence check the behaviour. -/
theorem C16_input_extend_ordered : Gen.inputExtendMapOrder = false := by decide

/-- **C16_scan_time_decisions.**  Three things the parser decides while scanning, when it knows only the definitions
of *earlier* loads, no longer make the outcome depend on the split (D78, D79, D80 repaired; forms read from
`validateDirUse`, `replaceDirRefs` and the schema arm of `addExtends` on this run): required directive arguments
are asked for by validation, directive uses are bound by name in the directive table, and the implied schema is
formed before an `extend schema` is applied.  The fixed table of the correspondence runs each as one document
and as several loads. -/
theorem C16_scan_time_decisions :
    Gen.dirRequiredUnchecked = false ∧ Gen.dirRefTypeFirst = false ∧ Gen.extendSchemaNeedsSchema = false := by decide

end Ggql.Load
