/-
C14 on the loader form read from /repo on this run.

`Gen.shallowRollback` (does a failed load take back what its `extend` blocks added to pre-existing type
objects: addExtends' undo list, the per-kind `unextend` and `truncate` bodies and every `Extend` body are
matched whole) and `Gen.schemaDuringScan` (is `root.schema` saved before the scan and put back) are both
`false` now (D30, D31 repaired), so the configuration of the source is the one `C14_full` is proved for.
-/
import Ggql.Props.C14
import Ggql.Gen.Dispatch
namespace Ggql.Rollback

def genCfg : Cfg := { shallowRollback := Gen.shallowRollback, schemaDuringScan := Gen.schemaDuringScan }

theorem genCfg_deep : genCfg = deep := by
  have h1 : Gen.shallowRollback = false := by decide
  have h2 : Gen.schemaDuringScan = false := by decide
  simp [genCfg, deep, h1, h2]

/-- **C14_current.**  With the rollback as the source has it on this run: whatever state the root is in,
whatever the document holds (any number of definitions, extensions of existing types, schema blocks) and
whichever phase fails — the scan after any number of definitions, adding the types, any extension,
validation — the observable state after the failed load is the state before it. -/
theorem C14_current (st : State) (doc : List Act) (f : Fail) :
    observe (load genCfg st doc (some f)).1 = observe st := by
  rw [genCfg_deep]; exact C14_full st doc f

/-- the D30 witness is repaired on the current form: `extend type Foo { g: Int } type Bar { }` fails
validation and `Foo` is as it was -/
example : (observe (load genCfg exState [.extend "Foo" ["g"], .define "Bar" []] (some .validate)).1).1 = [("Foo", ["f"])] := by
  rw [genCfg_deep]; decide

end Ggql.Rollback
