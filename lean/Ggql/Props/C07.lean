/-
C07 — well-formed envelope, locations on the token's line.

Envelope: by construction of `formEnvelope` from any walk response.  Locations: the counters of
`readByte` are characterised exactly (`after_line`, `after_col`), and the field location is on the
token's own line whenever the byte after the token is not a newline — and is on the *next* line
otherwise (D21, witness).  JSON validity of the serialised envelope is C18's JSON clause, decided per
case by the RFC 8259 reader.
-/
import Ggql.Model.Position
import Ggql.Model.Walk
namespace Ggql.Position

theorem after_append (a b : List Char) : after (a ++ b) = b.foldl advance (after a) := by
  simp [after, List.foldl_append]

/-- consuming characters none of which is a newline moves only the column -/
theorem foldl_no_newline (p : Pos) (cs : List Char) (h : ∀ c ∈ cs, c ≠ '\n') :
    cs.foldl advance p = { line := p.line, col := p.col + cs.length } := by
  induction cs generalizing p with
  | nil => simp
  | cons c cs ih =>
    have hc := h c (List.mem_cons_self ..)
    simp only [List.foldl_cons, advance, hc, if_false]
    rw [ih _ (fun x hx => h x (List.mem_cons_of_mem _ hx))]
    simp; omega

/-- **C07_loc_same_line.**  If the token and the byte after it contain no newline, the recorded line is
the token's line and the recorded column is (1-based start column) + 1 — positive and within the
line.  Holds for every source text, offset and token length. -/
theorem C07_loc_same_line (src : List Char) (off len : Nat)
    (hlen : off + len + 1 ≤ src.length)
    (hnn : ∀ c ∈ (src.drop off).take (len + 1), c ≠ '\n') :
    let loc := fieldLoc {} src off len
    loc.1 = (lineOf src off : Int) ∧ loc.2 = ((after (src.take off)).col : Int) + 1 := by
  have hsplit : src.take (off + len + 1) = src.take off ++ (src.drop off).take (len + 1) := by
    rw [show off + len + 1 = off + (len + 1) by omega, List.take_add]
  have htl : ((src.drop off).take (len + 1)).length = len + 1 := by
    simp [List.length_take, List.length_drop]; omega
  simp only [fieldLoc, if_true, hsplit, after_append, foldl_no_newline _ _ hnn, htl, lineOf]
  constructor
  · trivial
  · simp; omega

/-- **C07_dev_lookahead (D21).**  A field name followed directly by a newline is reported on the next
line, at column 0 or below: `{\n  b\n}` gives 3:0 for `b` (which is on line 2). -/
theorem C07_dev_lookahead :
    fieldLoc {} "{\n  b\n}".toList 4 1 = (3, 0) ∧ lineOf "{\n  b\n}".toList 4 = 2 ∧
    locOk "{\n  b\n}".toList 4 (fieldLoc {} "{\n  b\n}".toList 4 1) = false := by decide

/-- sampling with the token's first byte on deck (the repaired configuration) gives the token's own line
and (1-based start column) + 1 — the value the pinned tree reports when nothing goes wrong — for every
text, every offset whose byte is not a newline, and every token length: what follows the token no
longer matters. -/
theorem C07_loc_repaired (src : List Char) (off len : Nat) (c : Char) (hc : src[off]? = some c) (hn : c ≠ '\n') :
    fieldLoc { sampleAfterLookahead := false } src off len =
      ((lineOf src off : Int), ((after (src.take off)).col : Int) + 1) := by
  have hsplit : src.take (off + 1) = src.take off ++ [c] := by
    rw [List.take_add_one]; simp [hc]
  simp only [fieldLoc, Bool.false_eq_true, if_false, hsplit, after_append, List.foldl_cons, List.foldl_nil, advance, hn, lineOf]
  simp

/-- the repaired configuration agrees with the pinned one wherever the pinned one was right (token and
look-ahead on one line) -/
theorem C07_loc_repaired_agrees (src : List Char) (off len : Nat) (c : Char) (hc : src[off]? = some c) (hn : c ≠ '\n')
    (hlen : off + len + 1 ≤ src.length) (hnn : ∀ x ∈ (src.drop off).take (len + 1), x ≠ '\n') :
    fieldLoc { sampleAfterLookahead := false } src off len = fieldLoc {} src off len := by
  have h1 := C07_loc_repaired src off len c hc hn
  have h2 := C07_loc_same_line src off len hlen hnn
  simp only at h2
  rw [h1]
  exact Prod.ext h2.1.symm h2.2.symm

/-- … and repairs the witness of D21 -/
theorem C07_loc_repaired_witness :
    fieldLoc { sampleAfterLookahead := false } "{\n  b\n}".toList 4 1 = (2, 4) ∧
    locOk "{\n  b\n}".toList 4 (fieldLoc { sampleAfterLookahead := false } "{\n  b\n}".toList 4 1) = true := by decide

end Ggql.Position

namespace Ggql.Walk

/-- the response envelope `ResolveReader` returns -/
structure Envelope where
  data : Option J                 -- `none`: no "data" entry
  errors : Option (List Err)      -- `none`: no "errors" entry

/-- `ResolveReader` / `ResolveExecutable`: "errors" is present exactly when there is at least one error -/
def formEnvelope (r : Response) : Envelope :=
  { data := r.data, errors := if r.acc.errs.isEmpty then none else some r.acc.errs }

/-- **C07_envelope.**  Whatever the walk produced, the envelope holds "data" and/or a *non-empty*
"errors" list and nothing else (the structure has no other field), and at least one of the two. -/
theorem C07_envelope (r : Response) (h : r.data.isSome ∨ r.acc.errs ≠ []) :
    (∀ es, (formEnvelope r).errors = some es → es ≠ []) ∧
    ((formEnvelope r).data.isSome ∨ (formEnvelope r).errors.isSome) := by
  constructor
  · intro es hes
    simp only [formEnvelope] at hes
    split at hes
    · simp at hes
    · rename_i hne; simp only [Option.some.injEq] at hes; subst hes; simpa using hne
  · rcases h with h | h
    · left; exact h
    · right; simp only [formEnvelope]; cases hh : r.acc.errs with
      | nil => exact absurd hh h
      | cons _ _ => simp

/-- every response of `run` has a data entry (possibly null): the envelope is never empty -/
theorem run_has_data (env : Env) (ops : List Op) (opName : String) (rootNode : Nat) (rootTy : String → Option String) :
    (run env ops opName rootNode rootTy).data.isSome := by
  unfold run
  split
  · rfl
  · split
    · rfl
    · split <;> rfl

end Ggql.Walk
