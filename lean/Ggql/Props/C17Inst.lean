/-
C17 on the table regenerated from the source (`Gen/Intro.lean`).

`C17_table`: every (Go type, meta-field) slot of the code's table either has the specification's arm
or is one of the listed deviation sites with exactly the pinned arm.  A repaired site flips its
disjunct; any other change breaks this theorem.
-/
import Ggql.Props.C17
import Ggql.Gen.Intro
namespace Ggql.Intro

/-- the arms of the pinned tree where it departs from the specification -/
def pinnedDev : GoT → MF → Option Arm
  | .object, .name => some .nameOrSchema                     -- the nameless schema object says "schema": never reachable from a named type
  | .list, .name | .nonNull, .name => some .wrapperName      -- D53: wrappers carry a name (the suite expects `"name": "[Song]"`); their description is null now
  | .arg, .defaultValue | .inputField, .defaultValue => some .defaultMixed   -- D52 (narrowed): string defaults are given without their quotes (the suite expects `"defaultValue": "Who"`); other defaults as GraphQL text
  | _, _ => none

def slotOK (tbl : ArmFn) (g : GoT) (mf : MF) : Bool :=
  tbl g mf == specArm g mf || (pinnedDev g mf).isSome && tbl g mf == pinnedDev g mf

def tableOK (tbl : ArmFn) : Bool := GoT.all.all (fun g => MF.all.all (fun mf => slotOK tbl g mf))

theorem GoT.mem_all (g : GoT) : g ∈ GoT.all := by cases g <;> simp [GoT.all]
theorem MF.mem_all (m : MF) : m ∈ MF.all := by cases m <;> simp [MF.all]

theorem tableOK_slot (tbl : ArmFn) (h : tableOK tbl = true) (g : GoT) (mf : MF) :
    tbl g mf = specArm g mf ∨ ((pinnedDev g mf).isSome ∧ tbl g mf = pinnedDev g mf) := by
  unfold tableOK at h
  have h1 := List.all_eq_true.mp h g (GoT.mem_all g)
  have h2 := List.all_eq_true.mp h1 mf (MF.mem_all mf)
  unfold slotOK at h2
  simp only [Bool.or_eq_true, Bool.and_eq_true, beq_iff_eq] at h2
  exact h2

/-- **C17_table.** -/
theorem C17_table : tableOK (armFnOf Gen.introTable) = true := by decide +kernel

theorem C17_locate : GoT.all.all (fun g =>
    (Gen.locateTable.find? (fun r => r.1 == g)).map (·.2) == specLocate g) = true := by decide +kernel

theorem C17_builtin_scalars : Gen.builtinScalarKinds.all (· == "SCALAR") = true ∧
    Gen.builtinScalarKinds.length = 8 := by decide +kernel

theorem C17_helpers : Gen.possibleTypesScansObjects = true ∧ Gen.fieldDeprecatedByDirective = true ∧
    Gen.enumValueDeprecatedByDirective = true := by decide

/-- the `nameOrSchema` arm agrees with `name` on every node with a non-empty name (every named type) -/
theorem nameOrSchema_eq_name (cfg : Cfg) (S : Schema) (n : Node) (inc : Bool) (h : n.name.isEmpty = false) :
    interp cfg S .nameOrSchema n inc = interp cfg S .name n inc := by
  simp [interp, h]

/-! ### witnesses: each deviation site changes a client-visible answer -/

def wS : Schema :=
  { types := [.iface "Node" "" [⟨"id", "", [], .named "ID", .no⟩, ⟨"old", "", [], .named "Int", .reason "r"⟩],
              .object "T" "" ["Node"] [⟨"id", "", [⟨"a", "", .named "E", .sym "A"⟩], .nonNull (.named "ID"), .no⟩],
              .enum "E" "" [⟨"A", "", .no⟩],
              .scalar "ID" "", .scalar "Int" ""],
    dirs := [], query := some "T", mutation := none, subscription := none }

def pinnedCfg : Cfg := { locate := specLocate, bareReason := "\"No longer supported\"" }

/-- D57 (repaired in /repo): an interface hides its deprecated field when `includeDeprecated` is false, like an
object does — on the table regenerated from `Interface.Resolve` on this run -/
theorem C17_iface_fields_filtered :
    fetch pinnedCfg (armFnOf Gen.introTable) wS (.type (.named "Node")) .fields false =
    describe wS (.type (.named "Node")) .fields false := by decide +kernel

/-- D53: a wrapper type answers `name` -/
theorem C17_dev_wrapper_name :
    fetch pinnedCfg (armFnOf Gen.introTable) wS (.type (.nonNull (.named "ID"))) .name false = .str "ID!" ∧
    describe wS (.type (.nonNull (.named "ID"))) .name false = .null := by decide +kernel

/-- D52 (narrowed by the repair): an enum default is now given as GraphQL text; a string default still comes
without its quotes -/
theorem C17_dev_default :
    fetch pinnedCfg (armFnOf Gen.introTable) wS (.inval ⟨"a", "", .named "E", .sym "A"⟩ true) .defaultValue false
      = .text (.sym "A") ∧ (textDefault (.sym "A")) = (.str "A", 0) ∧
    fetch pinnedCfg (armFnOf Gen.introTable) wS (.inval ⟨"a", "", .named "String", .str "Who"⟩ true) .defaultValue false
      = .dflt (.str "Who") ∧ rawDefault (.str "Who") = (.str "Who", 0) ∧ textDefault (.str "Who") = (.str "\"Who\"", 0) := by
  refine ⟨by decide +kernel, rfl, by decide +kernel, rfl, rfl⟩

/-- D37 (repaired in /repo): `interfaces` is a list that resolves its own members, so the table regenerated on
this run is `PlainFree` at the witness: a root resolver is never handed the slice -/
theorem C17_interfaces_listed :
    fetch pinnedCfg (armFnOf Gen.introTable) wS (.type (.named "T")) .interfaces false =
    describe wS (.type (.named "T")) .interfaces false := by decide +kernel

/-- non-vacuity of `unroll_faithful`: a three-deep wrapper over a defined type -/
example : readType (describe wS) 4 (.type (.nonNull (.list (.nonNull (.named "ID"))))) =
    some (.nonNull (.list (.nonNull (.named "ID")))) :=
  unroll_faithful wS _ (.scalar "ID" "") (by decide +kernel) 4 (by decide)

end Ggql.Intro
