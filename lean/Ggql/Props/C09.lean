/-
C09 — @skip and @include follow GraphQL inclusion logic.

Property theorems only.  All of them are stated for *every* table that satisfies a decidable
predicate, every directive list (any length, any order) and every variable map.
-/
import Ggql.Model.Skip

namespace Ggql.Skip

/-- one step of a well-formed table ors the directive's own verdict into `skip` -/
theorem step_wf (t : Table) (h : t.wellFormed = true) (vars : Vars) (s : Bool) (e : Nat) (d : DirUse) :
    (step t vars (s, e) d).1 = (s || excludes vars d) := by
  obtain ⟨⟨u1, n1⟩, ⟨u2, n2⟩, ⟨u3, v3, e3⟩, ⟨u4, n4⟩, ⟨u5, n5⟩, ⟨u6, v6, e6⟩⟩ := t
  simp only [Table.wellFormed, Table.polarityOk, Table.accumulates, Bool.and_eq_true,
    Bool.not_eq_true', beq_iff_eq] at h
  obtain ⟨⟨⟨⟨⟨⟨⟨⟨h1, h2⟩, h3⟩, h4⟩, h5⟩, h6⟩, h7⟩, h8⟩, ⟨⟨h9, h10⟩, h11⟩, h12⟩ := h
  subst_vars
  obtain ⟨nm, arg⟩ := d
  cases nm <;> cases arg <;> simp [step, excludes, applyArm, applyUpd]
  all_goals (rename_i c; cases c <;> simp [applyArm, applyUpd])
  all_goals (split <;> simp [applyUpd] <;> cases u3 <;> cases u6 <;> simp)

theorem foldl_wf (t : Table) (h : t.wellFormed = true) (vars : Vars) (dirs : List DirUse) (s : Bool) (e : Nat) :
    (dirs.foldl (step t vars) (s, e)).1 = (s || !included dirs vars) := by
  induction dirs generalizing s e with
  | nil => simp [included]
  | cons d ds ih =>
    simp only [List.foldl_cons]
    have hs := step_wf t h vars s e d
    rw [show step t vars (s, e) d = ((step t vars (s, e) d).1, (step t vars (s, e) d).2) from rfl, ih, hs]
    simp [included, List.all_cons]
    cases s <;> cases excludes vars d <;> simp

/-- **C09_full.**  With accumulating arms the selection is skipped iff GraphQL inclusion logic
excludes it — any number of directives, any order, literal or variable conditions. -/
theorem C09_full (t : Table) (h : t.wellFormed = true) (dirs : List DirUse) (vars : Vars) :
    (skipSel t dirs vars).1 = !included dirs vars := by
  simpa [skipSel] using foldl_wf t h vars dirs false 0

theorem included_perm {d₁ d₂ : List DirUse} (vars : Vars) (hp : d₁.Perm d₂) :
    included d₁ vars = included d₂ vars := by
  induction hp with
  | nil => rfl
  | cons x _ ih => simp [included, List.all_cons] at *; rw [ih]
  | swap x y l => simp [included, List.all_cons]; rw [Bool.and_left_comm]
  | trans _ _ ih1 ih2 => exact ih1.trans ih2

/-- **C09_perm.**  The verdict does not depend on the order the directives are written in. -/
theorem C09_perm (t : Table) (h : t.wellFormed = true) {d₁ d₂ : List DirUse} (vars : Vars)
    (hp : d₁.Perm d₂) : (skipSel t d₁ vars).1 = (skipSel t d₂ vars).1 := by
  rw [C09_full t h, C09_full t h, included_perm vars hp]

/-- irrelevant directives leave the state alone, for every table -/
theorem step_irrelevant (t : Table) (vars : Vars) (st : Bool × Nat) (d : DirUse) (h : relevant d = false) :
    step t vars st d = st := by
  obtain ⟨nm, arg⟩ := d
  obtain ⟨s, e⟩ := st
  cases nm <;> cases arg <;> simp [step, relevant] at * <;> (rename_i c; cases c <;> simp [relevant] at *)

theorem excludes_irrelevant (vars : Vars) (d : DirUse) (h : relevant d = false) : excludes vars d = false := by
  obtain ⟨nm, arg⟩ := d
  cases nm <;> cases arg <;> simp [excludes, relevant] at * <;> (rename_i c; cases c <;> simp [relevant] at *)

/-- a single step from `skip = false` gives the directive's own verdict whenever polarity is right,
whatever the update form -/
theorem step_from_false (t : Table) (h : t.polarityOk = true) (vars : Vars) (e : Nat) (d : DirUse) :
    (step t vars (false, e) d).1 = excludes vars d := by
  obtain ⟨⟨u1, n1⟩, ⟨u2, n2⟩, ⟨u3, v3, e3⟩, ⟨u4, n4⟩, ⟨u5, n5⟩, ⟨u6, v6, e6⟩⟩ := t
  simp only [Table.polarityOk, Bool.and_eq_true, Bool.not_eq_true'] at h
  obtain ⟨⟨⟨⟨⟨⟨⟨h1, h2⟩, h3⟩, h4⟩, h5⟩, h6⟩, h7⟩, h8⟩ := h
  subst_vars
  obtain ⟨nm, arg⟩ := d
  cases nm <;> cases arg <;> simp [step, excludes, applyArm, applyUpd]
  all_goals (rename_i c; cases c <;> simp [applyArm, applyUpd])
  all_goals first
    | (split <;> simp [applyUpd] <;> (first | (cases u3 <;> simp) | (cases u6 <;> simp) | (cases u2 <;> simp) | (cases u5 <;> simp)))
    | (cases u1 <;> simp) | (cases u4 <;> simp)

theorem foldl_irrelevant (t : Table) (vars : Vars) (ds : List DirUse)
    (h : ∀ x ∈ ds, relevant x = false) (st : Bool × Nat) : ds.foldl (step t vars) st = st := by
  induction ds generalizing st with
  | nil => rfl
  | cons x xs ih =>
    simp only [List.foldl_cons]
    rw [step_irrelevant t vars st x (h x (List.mem_cons_self ..))]
    exact ih (fun y hy => h y (List.mem_cons_of_mem _ hy)) st

theorem foldl_partial (t : Table) (h : t.polarityOk = true) (vars : Vars) (dirs : List DirUse)
    (hg : (dirs.filter relevant).length ≤ 1) (e : Nat) :
    (dirs.foldl (step t vars) (false, e)).1 = !included dirs vars := by
  induction dirs generalizing e with
  | nil => simp [included]
  | cons d ds ih =>
    simp only [List.foldl_cons]
    by_cases hr : relevant d = true
    · -- d is the only relevant one: the rest leave the state alone
      have hlen : (ds.filter relevant).length = 0 := by
        simp only [List.filter_cons, hr, if_true, List.length_cons] at hg; omega
      have hrest : ∀ x ∈ ds, relevant x = false := by
        intro x hx
        cases hx' : relevant x with
        | false => rfl
        | true =>
          have : 0 < (ds.filter relevant).length :=
            List.length_pos_of_mem (List.mem_filter.mpr ⟨hx, hx'⟩)
          omega
      rw [foldl_irrelevant t vars ds hrest, step_from_false t h]
      have hall : ds.all (fun d => !excludes vars d) = true := by
        simp only [List.all_eq_true]
        intro x hx; simp [excludes_irrelevant vars x (hrest x hx)]
      simp [included, List.all_cons, hall]
    · have hr' : relevant d = false := by simpa using hr
      rw [step_irrelevant t vars _ d hr']
      have := ih (by simpa [List.filter_cons, hr'] using hg) e
      rw [this]
      simp [included, List.all_cons, excludes_irrelevant vars d hr']

/-- **C09_partial.**  What holds of the tree as pinned (arms are plain assignments, D07): with at
most one condition-carrying @skip/@include on a selection, the verdict is the specified one. -/
theorem C09_partial (t : Table) (h : t.polarityOk = true) (dirs : List DirUse) (vars : Vars)
    (hg : (dirs.filter relevant).length ≤ 1) :
    (skipSel t dirs vars).1 = !included dirs vars := by
  simpa [skipSel] using foldl_partial t h vars dirs hg 0

/-- **C09_dev_order (D07).**  Negation witness for the assigning table: the last directive wins.
`b @include(if:false) @skip(if:false)` is kept although @include(if:false) excludes it. -/
theorem C09_dev_order :
    let dirs := [⟨.incl, some (.lit false)⟩, ⟨.skip, some (.lit false)⟩]
    (skipSel tableAssign dirs []).1 = false ∧ included dirs [] = false := by decide

/-- and the two orders of the same pair disagree (order dependence proper) -/
theorem C09_dev_order_perm :
    (skipSel tableAssign [⟨.incl, some (.lit false)⟩, ⟨.skip, some (.lit false)⟩] []).1 ≠
    (skipSel tableAssign [⟨.skip, some (.lit false)⟩, ⟨.incl, some (.lit false)⟩] []).1 := by decide

/-- error accounting: one error per non-Boolean variable condition, for every table whose bad arms
report -/
theorem C09_errors (t : Table) (h : t.polarityOk = true) (dirs : List DirUse) (vars : Vars) :
    (skipSel t dirs vars).2 = (dirs.filter (isBad vars)).length := by
  have key : ∀ (s : Bool) (e : Nat), (dirs.foldl (step t vars) (s, e)).2 = e + (dirs.filter (isBad vars)).length := by
    induction dirs with
    | nil => intro s e; simp
    | cons d ds ih =>
      intro s e
      simp only [List.foldl_cons]
      rw [show step t vars (s, e) d = ((step t vars (s, e) d).1, (step t vars (s, e) d).2) from rfl, ih]
      have hstep : (step t vars (s, e) d).2 = e + (bif isBad vars d then 1 else 0) := by
        simp only [Table.polarityOk, Bool.and_eq_true] at h
        obtain ⟨⟨⟨⟨⟨⟨⟨_, _⟩, _⟩, _⟩, _⟩, _⟩, h7⟩, h8⟩ := h
        obtain ⟨nm, arg⟩ := d
        cases nm <;> cases arg <;> try (simp [step, isBad]; done)
        all_goals (rename_i c; cases c <;> try (simp [step, isBad]; done))
        all_goals (rename_i n; simp only [step, isBad]; cases hl : lookup vars n <;> simp [h7, h8])
      rw [hstep]
      cases hb : isBad vars d <;> simp [List.filter_cons, hb] <;> omega
  simpa [skipSel] using key false 0

/-- non-vacuity: the repaired table meets the hypothesis of `C09_full`; the pinned one meets that of
`C09_partial`; a two-directive selection with a variable meets the guard's complement -/
example : tableOr.wellFormed = true ∧ tableAssign.polarityOk = true ∧ tableAssign.wellFormed = false := by decide
example : (skipSel tableOr [⟨.incl, some (.var "v")⟩, ⟨.skip, some (.lit false)⟩] [("v", .bool false)]).1 = true := by decide

end Ggql.Skip
