/-
Generic lock theorems used by C12 and C20 — for executions of any length, any number of threads and
mutexes.
-/
import Ggql.Model.Locks
namespace Ggql.Locks

theorem holder_append_singleton (m : Nat) (tr : List Ev) (e : Ev) :
    holder m (tr ++ [e]) = upd m (holder m tr) e := by
  simp [holder, List.foldl_append]

theorem validFrom_append (pre a b : List Ev) :
    ValidFrom pre (a ++ b) ↔ ValidFrom pre a ∧ ValidFrom (pre ++ a) b := by
  induction a generalizing pre with
  | nil => simp [ValidFrom]
  | cons e a ih =>
    simp only [List.cons_append, ValidFrom, ih, List.append_assoc, List.singleton_append, and_assoc, List.nil_append]

theorem discFrom_append (L : Nat → Nat) (pre a b : List Ev) :
    DiscFrom L pre (a ++ b) ↔ DiscFrom L pre a ∧ DiscFrom L (pre ++ a) b := by
  induction a generalizing pre with
  | nil => simp [DiscFrom]
  | cons e a ih =>
    simp only [List.cons_append, DiscFrom, ih, List.append_assoc, List.singleton_append, and_assoc, List.nil_append]

/-- the holder can stop being `t` only through `rel t m` -/
theorem lose_holder (m t : Nat) (pre q : List Ev) (hv : ValidFrom pre q)
    (h0 : holder m pre = some t) (h1 : holder m (pre ++ q) ≠ some t) :
    ∃ q1 q2, q = q1 ++ .rel t m :: q2 := by
  induction q generalizing pre with
  | nil => simp [h0] at h1
  | cons e q ih =>
    obtain ⟨hok, hv'⟩ := hv
    by_cases hk : holder m (pre ++ [e]) = some t
    · have h1' : holder m ((pre ++ [e]) ++ q) ≠ some t := by simpa using h1
      obtain ⟨q1, q2, rfl⟩ := ih (pre ++ [e]) hv' hk h1'
      exact ⟨e :: q1, q2, rfl⟩
    · rw [holder_append_singleton] at hk
      cases e with
      | acq t' m' =>
        by_cases hm : m' = m
        · subst hm; simp [okEv, h0] at hok
        · simp [upd, hm, h0] at hk
      | rel t' m' =>
        by_cases hm : m' = m
        · subst hm
          simp only [okEv, h0, Option.some.injEq] at hok
          subst hok
          exact ⟨[], q, rfl⟩
        · simp [upd, hm, h0] at hk
      | acc => simp [upd, h0] at hk

/-- the holder can become `t` only through `acq t m` -/
theorem gain_holder (m t : Nat) (pre q : List Ev)
    (h0 : holder m pre ≠ some t) (h1 : holder m (pre ++ q) = some t) :
    ∃ q1 q2, q = q1 ++ .acq t m :: q2 := by
  induction q generalizing pre with
  | nil => simp at h1; exact absurd h1 h0
  | cons e q ih =>
    by_cases hk : holder m (pre ++ [e]) = some t
    · rw [holder_append_singleton] at hk
      cases e with
      | acq t' m' =>
        by_cases hm : m' = m
        · subst hm
          simp only [upd, if_true, Option.some.injEq] at hk
          subst hk
          exact ⟨[], q, rfl⟩
        · simp [upd, hm] at hk; exact absurd hk h0
      | rel t' m' =>
        by_cases hm : m' = m
        · simp [upd, hm] at hk
        · simp [upd, hm] at hk; exact absurd hk h0
      | acc => simp [upd] at hk; exact absurd hk h0
    · have h1' : holder m ((pre ++ [e]) ++ q) = some t := by simpa using h1
      obtain ⟨q1, q2, rfl⟩ := ih (pre ++ [e]) hk h1'
      exact ⟨e :: q1, q2, rfl⟩

/-- **lockset_ordered.**  In every execution that respects the mutexes and the lockset discipline,
two accesses to the same location by different threads are separated by a release of the location's
mutex by the first thread and a later acquisition by the second: they are ordered by happens-before,
so they do not race. -/
theorem lockset_ordered (L : Nat → Nat) (tr p q r : List Ev) (t1 t2 x : Nat) (w1 w2 : Bool)
    (hv : Valid tr) (hd : Disciplined L tr) (hne : t1 ≠ t2)
    (htr : tr = p ++ .acc t1 x w1 :: (q ++ .acc t2 x w2 :: r)) :
    ∃ q1 q2 q3, q = q1 ++ .rel t1 (L x) :: (q2 ++ .acq t2 (L x) :: q3) := by
  subst htr
  unfold Valid at hv
  unfold Disciplined at hd
  rw [validFrom_append] at hv
  rw [discFrom_append] at hd
  obtain ⟨_, hv2⟩ := hv
  obtain ⟨_, hd2⟩ := hd
  simp only [List.nil_append] at hv2 hd2
  obtain ⟨_, hv3⟩ := hv2
  obtain ⟨hh1, hd3⟩ := hd2
  rw [validFrom_append] at hv3
  rw [discFrom_append] at hd3
  obtain ⟨hvq, _⟩ := hv3
  obtain ⟨_, hd4⟩ := hd3
  obtain ⟨hh2, _⟩ := hd4
  simp only at hh1 hh2
  have hpre : holder (L x) (p ++ [.acc t1 x w1]) = some t1 := by
    rw [holder_append_singleton]; simpa [upd] using hh1
  have hne' : holder (L x) ((p ++ [.acc t1 x w1]) ++ q) ≠ some t1 := by
    rw [hh2]; intro h; exact hne (Option.some.inj h).symm
  obtain ⟨q1, q', hq⟩ := lose_holder (L x) t1 _ q hvq hpre hne'
  subst hq
  have hafter : holder (L x) ((p ++ [.acc t1 x w1]) ++ q1 ++ [.rel t1 (L x)]) ≠ some t2 := by
    rw [holder_append_singleton]; simp [upd]
  have hfin : holder (L x) (((p ++ [.acc t1 x w1]) ++ q1 ++ [.rel t1 (L x)]) ++ q') = some t2 := by
    simpa using hh2
  obtain ⟨q2, q3, hq'⟩ := gain_holder (L x) t2 _ q' hafter hfin
  subst hq'
  exact ⟨q1, q2, q3, rfl⟩

/-- thread-local bracketing: every access by `t` to `x` comes after an `acq t (L x)` of the same thread
with no `rel t (L x)` in between — what lexical `Lock() … Unlock()` scoping gives -/
def Bracketed (L : Nat → Nat) (tr : List Ev) : Prop :=
  ∀ p t x w q, tr = p ++ .acc t x w :: q →
    ∃ p1 p2, p = p1 ++ .acq t (L x) :: p2 ∧ ∀ q1 q2, p2 ≠ q1 ++ .rel t (L x) :: q2

theorem discFrom_of_bracketed (L : Nat → Nat) (pre rest : List Ev) (hv : Valid (pre ++ rest))
    (hb : Bracketed L (pre ++ rest)) : DiscFrom L pre rest := by
  induction rest generalizing pre with
  | nil => trivial
  | cons e rest ih =>
    refine ⟨?_, ?_⟩
    · cases e with
      | acq => trivial
      | rel => trivial
      | acc t x w =>
        simp only
        obtain ⟨p1, p2, hp, hno⟩ := hb pre t x w rest rfl
        subst hp
        unfold Valid at hv
        rw [validFrom_append] at hv
        obtain ⟨hv1, _⟩ := hv
        rw [validFrom_append] at hv1
        obtain ⟨_, hv2⟩ := hv1
        simp only [List.nil_append] at hv2
        obtain ⟨_, hv3⟩ := hv2
        have h0 : holder (L x) (p1 ++ [.acq t (L x)]) = some t := by
          rw [holder_append_singleton]; simp [upd]
        by_cases hk : holder (L x) ((p1 ++ [.acq t (L x)]) ++ p2) = some t
        · simpa using hk
        · obtain ⟨q1, q2, hq⟩ := lose_holder (L x) t _ p2 hv3 h0 hk
          exact absurd hq (hno q1 q2)
    · have : pre ++ e :: rest = (pre ++ [e]) ++ rest := by simp
      exact ih (pre ++ [e]) (this ▸ hv) (this ▸ hb)

/-- **bracketed_disciplined.**  Lexical bracketing of every access by its own thread's Lock/Unlock
implies the dynamic lockset discipline in every execution that respects the mutexes. -/
theorem bracketed_disciplined (L : Nat → Nat) (tr : List Ev) (hv : Valid tr) (hb : Bracketed L tr) :
    Disciplined L tr := discFrom_of_bracketed L [] tr hv hb

/-- **lockset_race_free.**  Bracketed accesses never race: any two accesses to one location by
different threads are ordered through a release and a later acquisition of the location's mutex. -/
theorem lockset_race_free (L : Nat → Nat) (tr p q r : List Ev) (t1 t2 x : Nat) (w1 w2 : Bool)
    (hv : Valid tr) (hb : Bracketed L tr) (hne : t1 ≠ t2)
    (htr : tr = p ++ .acc t1 x w1 :: (q ++ .acc t2 x w2 :: r)) :
    ∃ q1 q2 q3, q = q1 ++ .rel t1 (L x) :: (q2 ++ .acq t2 (L x) :: q3) :=
  lockset_ordered L tr p q r t1 t2 x w1 w2 hv (bracketed_disciplined L tr hv hb) hne htr

/-- ranks strictly increase along a wait-for chain of ranked waiters -/
theorem chain_rank_lt (rank : Nat → Nat) (a : Waiter) (ws : List Waiter) (hr : ∀ w ∈ a :: ws, Ranked rank w)
    (hc : Chain (a :: ws)) : ∀ w ∈ ws, rank a.want < rank w.want := by
  induction ws generalizing a with
  | nil => simp
  | cons b rest ih =>
    intro w hw
    obtain ⟨hab, hc'⟩ : a.want ∈ b.held ∧ Chain (b :: rest) := by
      cases rest <;> simp_all [Chain]
    have hb : rank a.want < rank b.want := hr b (by simp) a.want hab
    simp only [List.mem_cons] at hw
    rcases hw with rfl | hw
    · exact hb
    · have := ih b (fun w hw => hr w (List.mem_cons_of_mem _ hw)) hc' w hw
      omega

/-- **lock_order_deadlock_free.**  If every thread acquires mutexes in increasing rank order, no
wait-for chain closes into a cycle: there is no deadlock among any number of threads. -/
theorem lock_order_deadlock_free (rank : Nat → Nat) (a : Waiter) (ws : List Waiter)
    (hr : ∀ w ∈ a :: ws, Ranked rank w) (hc : Chain (a :: ws)) :
    ∀ z, (a :: ws).getLast? = some z → z.want ∉ a.held := by
  intro z hz hcyc
  cases ws with
  | nil =>
    simp at hz; subst hz
    have := hr a (by simp) a.want hcyc
    omega
  | cons b rest =>
    have hzmem : z ∈ b :: rest := by
      have := List.mem_of_getLast? hz
      simp only [List.mem_cons] at this ⊢
      rcases this with rfl | h
      · exfalso
        simp [List.getLast?_cons_cons] at hz
        -- z = a is the last element of a list with ≥ 2 elements: then a also occurs in the tail
        have hlast : z ∈ b :: rest := List.mem_of_getLast? hz
        have h1 := chain_rank_lt rank z (b :: rest) hr hc z hlast
        omega
      · exact h
    have h1 := chain_rank_lt rank a (b :: rest) hr hc z hzmem
    have h2 := hr a (by simp) z.want hcyc
    omega

/-- non-vacuity: a two-thread execution meeting `Valid` and `Disciplined` -/
example : Valid [.acq 1 0, .acc 1 7 true, .rel 1 0, .acq 2 0, .acc 2 7 false, .rel 2 0] ∧
    Disciplined (fun _ => 0) [.acq 1 0, .acc 1 7 true, .rel 1 0, .acq 2 0, .acc 2 7 false, .rel 2 0] := by
  simp [Valid, ValidFrom, Disciplined, DiscFrom, okEv, holder, upd]

end Ggql.Locks
