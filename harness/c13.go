package main

import (
	"fmt"
	"strings"

	"github.com/uhn/ggql/pkg/ggql"
)

// ---- C13: schema validation accepts well-formed schemas, rejects each rule violation ---------------

func litKind(lit string) string {
	switch {
	case lit == "null":
		return "null"
	case lit == "true" || lit == "false":
		return "bool"
	case strings.HasPrefix(lit, `"`):
		return "string"
	case strings.ContainsAny(lit, ".eE") && strings.IndexAny(lit, "0123456789") >= 0 && !strings.ContainsAny(lit, "[{"):
		return "float"
	case len(lit) > 0 && (lit[0] == '-' || (lit[0] >= '0' && lit[0] <= '9')):
		return "int"
	}
	return "other"
}

func usesTerm(ds []sDirUse) T {
	var out []T
	for _, d := range ds {
		var as []T
		for _, a := range d.args {
			as = append(as, N("a", S(a[0]), A(litKind(a[1]))))
		}
		out = append(out, N("use", S(d.name), LS(as)))
	}
	return LS(out)
}

func argTerm(a *sArg) T { return N("arg", S(a.name), a.t.term(), usesTerm(a.dirs), B(a.dflt != "")) }

func fieldsTerm(fs []*sField) T {
	var out []T
	for _, f := range fs {
		var as []T
		for _, a := range f.args {
			as = append(as, argTerm(a))
		}
		out = append(out, N("field", S(f.name), f.t.term(), LS(as), usesTerm(f.dirs)))
	}
	return LS(out)
}

func strsTerm(xs []string) T {
	var out []T
	for _, x := range xs {
		out = append(out, S(x))
	}
	return LS(out)
}

func (s *sSet) rulesTerm() T {
	var out []T
	for _, d := range s.defs {
		switch d.kind {
		case "scalar":
			out = append(out, N("scalar", S(d.name), usesTerm(d.dirs)))
		case "enum":
			var vs []T
			for _, v := range d.values {
				vs = append(vs, N("v", S(v.name), usesTerm(v.dirs)))
			}
			out = append(out, N("enum", S(d.name), LS(vs), usesTerm(d.dirs)))
		case "input":
			var fs []T
			for _, f := range d.inFields {
				fs = append(fs, argTerm(f))
			}
			out = append(out, N("input", S(d.name), LS(fs), usesTerm(d.dirs)))
		case "interface":
			out = append(out, N("iface", S(d.name), fieldsTerm(d.fields), usesTerm(d.dirs)))
		case "object":
			out = append(out, N("object", S(d.name), strsTerm(d.ifaces), fieldsTerm(d.fields), usesTerm(d.dirs)))
		case "union":
			out = append(out, N("union", S(d.name), strsTerm(d.members), usesTerm(d.dirs)))
		case "directive":
			var as []T
			for _, a := range d.dirArgs {
				as = append(as, argTerm(a))
			}
			out = append(out, N("directive", S(d.name), LS(as), strsTerm(d.locs)))
		case "schema":
			var rs []T
			for _, r := range d.roots {
				rs = append(rs, N("r", S(r[0]), S(r[1])))
			}
			out = append(out, N("schema", LS(rs), usesTerm(d.dirs)))
		}
	}
	return LS(out)
}

func (s *sSet) pick(r *Rng, kind string) *sDef {
	var c []*sDef
	for _, d := range s.defs {
		if d.kind == kind {
			c = append(c, d)
		}
	}
	if len(c) == 0 {
		return nil
	}
	return Pick(r, c)
}

type c13Mut struct {
	name string
	// apply mutates the set and returns the offender the error must name ("" = not applicable)
	apply func(r *Rng, s *sSet) string
}

func wrapRandom(r *Rng, b *gTRef) *gTRef {
	switch r.Intn(4) {
	case 0:
		return listOf(listOf(nonNull(b)))
	case 1:
		return nonNull(b)
	case 2:
		return listOf(b)
	}
	return b
}

var c13Muts = []c13Mut{
	{"none", func(r *Rng, s *sSet) string { return "-" }},
	{"R1-undefined-field-type", func(r *Rng, s *sSet) string {
		d := s.pick(r, "object")
		f := Pick(r, d.fields)
		f.t = wrapRandom(r, named("Nowhere"))
		return "Nowhere"
	}},
	{"R1-undefined-arg-type", func(r *Rng, s *sSet) string {
		d := s.pick(r, "object")
		f := Pick(r, d.fields)
		f.args = append(f.args, &sArg{name: "zz", t: wrapRandom(r, named("Nowhere"))})
		for _, in := range d.ifaces { // keep interface conformance: optional extra argument
			_ = in
		}
		return "Nowhere"
	}},
	{"R1-undefined-union-member", func(r *Rng, s *sSet) string {
		d := s.pick(r, "union")
		if d == nil {
			return ""
		}
		d.members = append(d.members, "Nowhere")
		return "Nowhere"
	}},
	{"R1-undefined-interface", func(r *Rng, s *sSet) string {
		d := s.pick(r, "object")
		d.ifaces = append(d.ifaces, "Nowhere")
		return "Nowhere"
	}},
	{"R2-undefined-directive", func(r *Rng, s *sSet) string {
		d := s.pick(r, "object")
		if r.Bool() {
			d.dirs = append(d.dirs, sDirUse{name: "nope"})
		} else {
			f := Pick(r, d.fields)
			f.dirs = append(f.dirs, sDirUse{name: "nope"})
		}
		return "nope"
	}},
	{"R2-undefined-directive-input-field-builtin", func(r *Rng, s *sSet) string {
		// a new input field whose type is a bare built-in scalar: already resolved when the document is scanned
		d := s.pick(r, "input")
		if d == nil {
			return ""
		}
		d.inFields = append(d.inFields, &sArg{name: "plain", t: named(Pick(r, []string{"Int", "String", "Boolean", "ID", "Float"})), dirs: []sDirUse{{name: "nope"}}})
		return "nope"
	}},
	{"R2-undefined-directive-input-field", func(r *Rng, s *sSet) string {
		d := s.pick(r, "input")
		if d == nil || len(d.inFields) == 0 {
			return ""
		}
		if r.Bool() {
			d.inFields = append(d.inFields, &sArg{name: "wrapped", t: wrapRandom(r, named(Pick(r, []string{"Int", "String"}))), dirs: []sDirUse{{name: "nope"}}})
		} else {
			f := Pick(r, d.inFields)
			f.dirs = append(f.dirs, sDirUse{name: "nope"})
		}
		return "nope"
	}},
	{"R2-undefined-directive-argument", func(r *Rng, s *sSet) string {
		d := s.pick(r, "object")
		f := Pick(r, d.fields)
		t := named(Pick(r, []string{"Int", "String", "Boolean"}))
		if r.Bool() {
			t = wrapRandom(r, t)
		}
		f.args = append(f.args, &sArg{name: "plainArg", t: t, dirs: []sDirUse{{name: "nope"}}})
		return "nope"
	}},
	{"R2-undefined-directive-enum", func(r *Rng, s *sSet) string {
		d := s.pick(r, "enum")
		if r.Bool() {
			d.dirs = append(d.dirs, sDirUse{name: "nope"})
		} else {
			v := Pick(r, d.values)
			v.dirs = append(v.dirs, sDirUse{name: "nope"})
		}
		return "nope"
	}},
	{"R2-undefined-directive-type-level", func(r *Rng, s *sSet) string {
		d := s.pick(r, Pick(r, []string{"input", "interface", "union"}))
		if d == nil {
			return ""
		}
		if d.kind == "interface" && r.Bool() {
			f := Pick(r, d.fields)
			f.dirs = append(f.dirs, sDirUse{name: "nope"})
		} else {
			d.dirs = append(d.dirs, sDirUse{name: "nope"})
		}
		return "nope"
	}},
	{"R6-argument-type-changed", func(r *Rng, s *sSet) string {
		// the implementing field keeps the interface field's argument but changes its type at some wrapper level
		pairs := [][2]*gTRef{
			{named("Int"), nonNull(named("Int"))},
			{listOf(named("Int")), nonNull(listOf(named("Int")))},
			{listOf(named("Int")), listOf(nonNull(named("Int")))},
			{listOf(listOf(named("Int"))), listOf(listOf(nonNull(named("Int"))))},
			{nonNull(named("Int")), named("Int")},
			{named("Int"), named("String")},
			{listOf(named("Int")), named("Int")},
		}
		p := Pick(r, pairs)
		s.defs = append(s.defs,
			&sDef{kind: "interface", name: "ArgI", fields: []*sField{{name: "fa", t: named("Int"), args: []*sArg{{name: "same", t: named("String")}, {name: "xarg", t: p[0]}}}}},
			&sDef{kind: "object", name: "ArgO", ifaces: []string{"ArgI"}, fields: []*sField{{name: "fa", t: named("Int"), args: []*sArg{{name: "same", t: named("String")}, {name: "xarg", t: p[1]}}}}})
		return "xarg"
	}},
	{"R3-duplicate-type", func(r *Rng, s *sSet) string {
		d := s.pick(r, "enum")
		s.defs = append(s.defs, &sDef{kind: "object", name: d.name, fields: []*sField{{name: "a", t: named("Int")}}})
		return d.name
	}},
	{"R3-scalar-after-type", func(r *Rng, s *sSet) string {
		d := s.pick(r, "enum")
		s.defs = append(s.defs, &sDef{kind: "scalar", name: d.name})
		return d.name
	}},
	{"R3-type-after-scalar", func(r *Rng, s *sSet) string {
		s.defs = append(s.defs, &sDef{kind: "scalar", name: "ScThenEnum"}, &sDef{kind: "enum", name: "ScThenEnum", values: []*sEnumVal{{name: "A"}}})
		return "ScThenEnum"
	}},
	{"R3-scalar-after-scalar", func(r *Rng, s *sSet) string {
		s.defs = append(s.defs, &sDef{kind: "scalar", name: "ScTwice"}, &sDef{kind: "scalar", name: "ScTwice"})
		return "ScTwice"
	}},
	{"R3-duplicate-field", func(r *Rng, s *sSet) string {
		d := s.pick(r, "object")
		f := Pick(r, d.fields)
		d.fields = append(d.fields, &sField{name: f.name, t: named("Int")})
		return f.name
	}},
	{"R3-duplicate-enum-value", func(r *Rng, s *sSet) string {
		d := s.pick(r, "enum")
		v := Pick(r, d.values)
		d.values = append(d.values, &sEnumVal{name: v.name})
		return v.name
	}},
	{"R3-duplicate-argument", func(r *Rng, s *sSet) string {
		d := s.pick(r, "object")
		f := Pick(r, d.fields)
		f.args = append(f.args, &sArg{name: "dup", t: named("Int")}, &sArg{name: "dup", t: named("Int")})
		return "dup"
	}},
	{"R4-reserved-field-name", func(r *Rng, s *sSet) string {
		d := s.pick(r, "object")
		d.fields = append(d.fields, &sField{name: "__bad", t: named("Int")})
		return "__bad"
	}},
	{"R4-reserved-type-name", func(r *Rng, s *sSet) string {
		s.defs = append(s.defs, &sDef{kind: "object", name: "__Bad", fields: []*sField{{name: "a", t: named("Int")}}})
		return "__Bad"
	}},
	{"R4-digit-first-name", func(r *Rng, s *sSet) string {
		d := s.pick(r, "object")
		d.fields = append(d.fields, &sField{name: "9lives", t: named("Int")})
		return "9lives"
	}},
	{"R4-reserved-enum-value", func(r *Rng, s *sSet) string {
		d := s.pick(r, "enum")
		d.values = append(d.values, &sEnumVal{name: "__V"})
		return "__V"
	}},
	{"R5-input-object-as-field-type", func(r *Rng, s *sSet) string {
		in := s.pick(r, "input")
		if in == nil {
			return ""
		}
		d := s.pick(r, "object")
		d.fields = append(d.fields, &sField{name: "wrongOut", t: wrapRandom(r, named(in.name))})
		return "wrongOut"
	}},
	{"R5-object-as-argument-type", func(r *Rng, s *sSet) string {
		o := s.pick(r, "object")
		d := s.pick(r, "object")
		f := Pick(r, d.fields)
		f.args = append(f.args, &sArg{name: "wrongIn", t: wrapRandom(r, named(o.name))})
		return "wrongIn"
	}},
	{"R5-object-as-input-field-type", func(r *Rng, s *sSet) string {
		in := s.pick(r, "input")
		if in == nil {
			return ""
		}
		o := s.pick(r, "object")
		in.inFields = append(in.inFields, &sArg{name: "wrongIn", t: wrapRandom(r, named(o.name))})
		return "wrongIn"
	}},
	{"R5-object-as-directive-argument-type", func(r *Rng, s *sSet) string {
		o := s.pick(r, "object")
		s.defs = append(s.defs, &sDef{kind: "directive", name: "dobj", locs: []string{"OBJECT"},
			dirArgs: []*sArg{{name: "x", t: wrapRandom(r, named(o.name))}}})
		return "dobj"
	}},
	{"R6-missing-interface-field", func(r *Rng, s *sSet) string {
		for _, d := range s.defs {
			if d.kind == "object" && len(d.ifaces) > 0 {
				in := s.by[d.ifaces[0]]
				fname := in.fields[0].name
				var keep []*sField
				for _, f := range d.fields {
					if f.name != fname {
						keep = append(keep, f)
					}
				}
				if len(keep) == 0 {
					return ""
				}
				d.fields = keep
				return fname
			}
		}
		return ""
	}},
	{"R6-incompatible-field-type", func(r *Rng, s *sSet) string {
		for _, d := range s.defs {
			if d.kind == "object" && len(d.ifaces) > 0 {
				in := s.by[d.ifaces[0]]
				fname := in.fields[0].name
				for _, f := range d.fields {
					if f.name == fname {
						if f.t.baseName() == "Boolean" {
							f.t = named("Int")
						} else {
							f.t = named("Boolean")
						}
						return fname
					}
				}
			}
		}
		return ""
	}},
	{"R6-required-extra-argument", func(r *Rng, s *sSet) string {
		for _, d := range s.defs {
			if d.kind == "object" && len(d.ifaces) > 0 {
				in := s.by[d.ifaces[0]]
				fname := in.fields[0].name
				for _, f := range d.fields {
					if f.name == fname {
						f.args = append(f.args, &sArg{name: "must", t: nonNull(named("Int"))})
						return "must"
					}
				}
			}
		}
		return ""
	}},
	{"R6-covariant-nonnull-object", func(r *Rng, s *sSet) string {
		// well-formed: the implementation returns Obj! where the interface says Iface (D45 refuses it)
		s.defs = append(s.defs,
			&sDef{kind: "interface", name: "Node", fields: []*sField{{name: "self", t: named("Node")}}},
			&sDef{kind: "object", name: "NodeObj", ifaces: []string{"Node"}, fields: []*sField{{name: "self", t: nonNull(named("NodeObj"))}}})
		return "-"
	}},
	{"R6-implements-non-interface", func(r *Rng, s *sSet) string {
		d := s.pick(r, "object")
		e := s.pick(r, "enum")
		d.ifaces = append(d.ifaces, e.name)
		return e.name
	}},
	{"R7-non-object-union-member", func(r *Rng, s *sSet) string {
		d := s.pick(r, "union")
		if d == nil {
			return ""
		}
		e := s.pick(r, "enum")
		d.members = append(d.members, e.name)
		return e.name
	}},
	{"R8-empty-object", func(r *Rng, s *sSet) string {
		s.defs = append(s.defs, &sDef{kind: "object", name: "Hollow"})
		return "Hollow"
	}},
	{"R8-empty-enum", func(r *Rng, s *sSet) string {
		s.defs = append(s.defs, &sDef{kind: "enum", name: "HollowE"})
		return "HollowE"
	}},
	{"R8-empty-input", func(r *Rng, s *sSet) string {
		s.defs = append(s.defs, &sDef{kind: "input", name: "HollowI"})
		return "HollowI"
	}},
	{"R9-enum-value-true", func(r *Rng, s *sSet) string {
		d := s.pick(r, "enum")
		v := Pick(r, []string{"true", "false", "null"})
		d.values = append(d.values, &sEnumVal{name: v})
		return v
	}},
	{"R10-misplaced-on-type", func(r *Rng, s *sSet) string {
		s.defs = append(s.defs, &sDef{kind: "directive", name: "onlyEnum", locs: []string{"ENUM"}})
		d := s.pick(r, "object")
		d.dirs = append(d.dirs, sDirUse{name: "onlyEnum"})
		return "onlyEnum"
	}},
	{"R10-misplaced-on-enum-value", func(r *Rng, s *sSet) string {
		s.defs = append(s.defs, &sDef{kind: "directive", name: "onlyObj", locs: []string{"OBJECT"}})
		d := s.pick(r, "enum")
		v := Pick(r, d.values)
		v.dirs = append(v.dirs, sDirUse{name: "onlyObj"})
		return "onlyObj"
	}},
	{"R10-misplaced-on-field", func(r *Rng, s *sSet) string {
		s.defs = append(s.defs, &sDef{kind: "directive", name: "onlyEnum", locs: []string{"ENUM"}})
		d := s.pick(r, "object")
		f := Pick(r, d.fields)
		f.dirs = append(f.dirs, sDirUse{name: "onlyEnum"})
		return "onlyEnum"
	}},
	{"R10-misplaced-on-input-field", func(r *Rng, s *sSet) string {
		in := s.pick(r, "input")
		if in == nil {
			return ""
		}
		s.defs = append(s.defs, &sDef{kind: "directive", name: "onlyEnum", locs: []string{"ENUM"}})
		f := Pick(r, in.inFields)
		f.dirs = append(f.dirs, sDirUse{name: "onlyEnum"})
		return "onlyEnum"
	}},
	// well-formed variants: list-valued directive argument defaults and uses (the coerced value is a Go slice)
	{"V-directive-list-default", func(r *Rng, s *sSet) string {
		s.defs = append(s.defs, &sDef{kind: "directive", name: "lst", locs: []string{"OBJECT"}, dirArgs: []*sArg{{name: "l", t: listOf(named("Int")), dflt: "[1, 2]"}}})
		d := s.pick(r, "object")
		d.dirs = append(d.dirs, sDirUse{name: "lst"})
		return "lst"
	}},
	{"V-directive-list-argument", func(r *Rng, s *sSet) string {
		s.defs = append(s.defs, &sDef{kind: "directive", name: "lst", locs: []string{"OBJECT"}, dirArgs: []*sArg{{name: "l", t: listOf(named("Int"))}}})
		d := s.pick(r, "object")
		d.dirs = append(d.dirs, sDirUse{name: "lst", args: [][2]string{{"l", "[3, 4]"}}})
		return "lst"
	}},
	{"R10-unknown-directive-argument-on-type", func(r *Rng, s *sSet) string {
		s.defs = append(s.defs, &sDef{kind: "directive", name: "mark", locs: []string{"OBJECT", "FIELD_DEFINITION"}, dirArgs: []*sArg{{name: "n", t: named("Int")}}})
		d := s.pick(r, "object")
		d.dirs = append(d.dirs, sDirUse{name: "mark", args: [][2]string{{"zz", "1"}}})
		return "zz"
	}},
	{"R10-required-directive-argument-missing", func(r *Rng, s *sSet) string {
		s.defs = append(s.defs, &sDef{kind: "directive", name: "need", locs: []string{"OBJECT"}, dirArgs: []*sArg{{name: "n", t: nonNull(named("Int"))}, {name: "m", t: named("Int")}}})
		d := s.pick(r, "object")
		d.dirs = append(d.dirs, sDirUse{name: "need", args: [][2]string{{"m", "1"}}})
		return "n"
	}},
	{"V-directive-required-argument-with-default-omitted", func(r *Rng, s *sSet) string {
		s.defs = append(s.defs, &sDef{kind: "directive", name: "need", locs: []string{"OBJECT"}, dirArgs: []*sArg{{name: "n", t: nonNull(named("Int")), dflt: "4"}}})
		d := s.pick(r, "object")
		d.dirs = append(d.dirs, sDirUse{name: "need"})
		return "need"
	}},
	{"R10-null-for-non-null-directive-argument-with-default", func(r *Rng, s *sSet) string {
		s.defs = append(s.defs, &sDef{kind: "directive", name: "limit", locs: []string{"OBJECT"}, dirArgs: []*sArg{{name: "max", t: nonNull(named("Int")), dflt: "10"}}})
		d := s.pick(r, "object")
		d.dirs = append(d.dirs, sDirUse{name: "limit", args: [][2]string{{"max", "null"}}})
		return "Int!"
	}},
	{"R10-null-for-non-null-directive-argument", func(r *Rng, s *sSet) string {
		s.defs = append(s.defs, &sDef{kind: "directive", name: "limit", locs: []string{"OBJECT"}, dirArgs: []*sArg{{name: "max", t: nonNull(named("Int"))}}})
		d := s.pick(r, "object")
		d.dirs = append(d.dirs, sDirUse{name: "limit", args: [][2]string{{"max", "null"}}})
		return "Int!"
	}},
	{"V-null-for-nullable-directive-argument-with-default", func(r *Rng, s *sSet) string {
		s.defs = append(s.defs, &sDef{kind: "directive", name: "limit", locs: []string{"OBJECT"}, dirArgs: []*sArg{{name: "max", t: named("Int"), dflt: "10"}}})
		d := s.pick(r, "object")
		d.dirs = append(d.dirs, sDirUse{name: "limit", args: [][2]string{{"max", "null"}}})
		return "limit"
	}},
	// well-formed: one directive applied to two arguments of another, and a diamond of argument directives — no loop
	{"V-directive-on-two-arguments-of-a-directive", func(r *Rng, s *sSet) string {
		s.defs = append(s.defs,
			&sDef{kind: "directive", name: "dep", locs: []string{"ARGUMENT_DEFINITION", "INPUT_FIELD_DEFINITION"}},
			&sDef{kind: "directive", name: "two", locs: []string{"OBJECT"}, dirArgs: []*sArg{{name: "a", t: named("Int"), dirs: []sDirUse{{name: "dep"}}}, {name: "b", t: named("Int"), dirs: []sDirUse{{name: "dep"}}}}})
		return "two"
	}},
	{"V-directive-diamond", func(r *Rng, s *sSet) string {
		locs := []string{"ARGUMENT_DEFINITION", "INPUT_FIELD_DEFINITION"}
		s.defs = append(s.defs,
			&sDef{kind: "directive", name: "leaf", locs: locs},
			&sDef{kind: "directive", name: "lft", locs: locs, dirArgs: []*sArg{{name: "p", t: named("Int"), dirs: []sDirUse{{name: "leaf"}}}}},
			&sDef{kind: "directive", name: "rgt", locs: locs, dirArgs: []*sArg{{name: "p", t: named("Int"), dirs: []sDirUse{{name: "leaf"}}}}},
			&sDef{kind: "directive", name: "top", locs: []string{"OBJECT"}, dirArgs: []*sArg{{name: "a", t: named("Int"), dirs: []sDirUse{{name: "lft"}}}, {name: "b", t: named("Int"), dirs: []sDirUse{{name: "rgt"}}}}})
		return "top"
	}},
	{"R7-repeated-union-member", func(r *Rng, s *sSet) string {
		o := s.pick(r, "object")
		s.defs = append(s.defs, &sDef{kind: "union", name: "URep", members: []string{o.name, o.name}})
		return o.name
	}},
	{"R6-repeated-interface", func(r *Rng, s *sSet) string {
		s.defs = append(s.defs, &sDef{kind: "interface", name: "IRep", fields: []*sField{{name: "irep", t: named("Int")}}},
			&sDef{kind: "object", name: "ORep", ifaces: []string{"IRep", "IRep"}, fields: []*sField{{name: "irep", t: named("Int")}}})
		return "IRep"
	}},
	{"R10-uncoercible-directive-argument-on-type", func(r *Rng, s *sSet) string {
		s.defs = append(s.defs, &sDef{kind: "directive", name: "mark", locs: []string{"OBJECT", "FIELD_DEFINITION"}, dirArgs: []*sArg{{name: "n", t: named("Int")}}})
		d := s.pick(r, "object")
		d.dirs = append(d.dirs, sDirUse{name: "mark", args: [][2]string{{"n", `"str"`}}})
		return "Int"
	}},
	{"R10-unknown-directive-argument-on-field", func(r *Rng, s *sSet) string {
		s.defs = append(s.defs, &sDef{kind: "directive", name: "mark", locs: []string{"OBJECT", "FIELD_DEFINITION"}, dirArgs: []*sArg{{name: "n", t: named("Int")}}})
		d := s.pick(r, "object")
		f := Pick(r, d.fields)
		f.dirs = append(f.dirs, sDirUse{name: "mark", args: [][2]string{{"zz", "1"}}})
		return "zz"
	}},
	{"R10-argument-definition-location", func(r *Rng, s *sSet) string {
		// well-formed: a directive for ARGUMENT_DEFINITION used on a directive definition's argument (D29 refuses it)
		s.defs = append(s.defs,
			&sDef{kind: "directive", name: "onArg", locs: []string{"ARGUMENT_DEFINITION"}},
			&sDef{kind: "directive", name: "carrier", locs: []string{"OBJECT"}, dirArgs: []*sArg{{name: "x", t: named("Int"), dirs: []sDirUse{{name: "onArg"}}}}})
		return "-"
	}},
	{"R11-invalid-location", func(r *Rng, s *sSet) string {
		s.defs = append(s.defs, &sDef{kind: "directive", name: "lost", locs: []string{"OBJECT", "NOWHERE"}})
		return "NOWHERE"
	}},
	{"R11-directive-cycle", func(r *Rng, s *sSet) string {
		s.defs = append(s.defs,
			&sDef{kind: "directive", name: "cyA", locs: []string{"INPUT_FIELD_DEFINITION", "ARGUMENT_DEFINITION"}, dirArgs: []*sArg{{name: "x", t: named("Int"), dirs: []sDirUse{{name: "cyB"}}}}},
			&sDef{kind: "directive", name: "cyB", locs: []string{"INPUT_FIELD_DEFINITION", "ARGUMENT_DEFINITION"}, dirArgs: []*sArg{{name: "y", t: named("Int"), dirs: []sDirUse{{name: "cyA"}}}}})
		return "cy"
	}},
	{"R12-nonnull-of-nonnull", func(r *Rng, s *sSet) string {
		d := s.pick(r, "object")
		f := Pick(r, d.fields)
		f.t = nonNull(nonNull(named("Int")))
		return " at " // a syntax error: the parser reports the position of the offending field
	}},
	{"R12-schema-extra-field", func(r *Rng, s *sSet) string {
		var q string
		for _, d := range s.defs {
			if d.kind == "object" && (d.name == "Query" || d.name == "RootQ") {
				q = d.name
			}
		}
		var keep []*sDef
		for _, d := range s.defs {
			if d.kind != "schema" {
				keep = append(keep, d)
			}
		}
		s.defs = append(keep, &sDef{kind: "schema", roots: [][2]string{{"query", q}, {"extra", q}}})
		return "extra"
	}},
}

func c13Case(o *Out, seedRng *Rng, mi int) {
	// the same base set for every mutation of one round: regenerate from a forked state
	r := seedRng
	set := genSet(r, sdlOpts{defaults: true, dirUses: r.Chance(60), schemaBlk: r.Chance(25)})
	m := c13Muts[mi]
	offender := m.apply(r, set)
	if offender == "" {
		o.Count("not-applicable=" + m.name)
		return
	}
	root := newLoadRoot()
	err := safeParse(root, set.sdl(false))
	accepted := err == nil
	named := true
	if err != nil && offender != "-" {
		named = strings.Contains(err.Error(), offender)
	}
	if err != nil && strings.HasPrefix(err.Error(), "hang") {
		o.Count("hang")
	}
	o.Count("mutation=" + m.name)
	if accepted {
		o.Count("accepted")
	} else {
		o.Count("rejected")
	}
	es := ""
	if err != nil {
		es = err.Error()
		if len(es) > 300 {
			es = es[:300]
		}
	}
	o.Emit(Case{
		Term:       N("c13", A(m.name), set.rulesTerm()),
		Obs:        N("obs", B(accepted), B(named)),
		Meta:       map[string]interface{}{"mutation": m.name, "offender": offender, "error": es, "sdl": set.sdl(false)},
		Nontrivial: true,
	})
}

func init() {
	props["C13"] = func(o *Out, rng *Rng, tier string) {
		ggql.Sort = true
		defer func() { ggql.Sort = false }()
		rounds := 25
		if tier == "thorough" {
			rounds = 1200
		}
		for k := 0; k < rounds; k++ {
			seed := rng.U64()
			for mi := range c13Muts {
				c13Case(o, NewRng(seed), mi)
			}
		}
		c13History(o)
		_ = fmt.Sprint
	}
}

// ---- rules that a later load breaks for a type of an earlier load --------------------------------------
//
// C13 speaks of every schema a root accepts, however it came to be: a load (or an AddTypes call) that leaves the
// root with a type breaking a rule must be refused also when the offending type was defined by an earlier load and
// only what it depends on changed now.  Fixed table, every run; the expected observation is the property.

var c13Histories = []struct {
	name    string
	first   string
	second  string // loaded after first; "api:" entries are done through the Go API
	refused bool
	names   string // what the error must name
}{
	{"extend-interface-implementer-of-earlier-load", "interface Node { id: ID }\ntype User implements Node { id: ID name: String }\ntype Query { u: User }",
		"extend interface Node { created: String }", true, "created"},
	{"extend-interface-with-implementers-in-step", "interface Node { id: ID }\ntype User implements Node { id: ID name: String }\ntype Query { u: User }",
		"extend interface Node { created: String }\nextend type User { created: String }", false, ""},
	{"extend-interface-two-implementers-one-behind", "interface Node { id: ID }\ntype User implements Node { id: ID }\ntype Org implements Node { id: ID }\ntype Query { u: User o: Org }",
		"extend interface Node { created: String }\nextend type User { created: String }", true, "Org"},
	{"extend-interface-argument-added", "interface Node { id(x: Int): ID }\ntype User implements Node { id(x: Int): ID }\ntype Query { u: User }",
		"extend interface Node { at(y: Int): ID }", true, "at"},
	{"new-implementer-of-earlier-interface", "interface Node { id: ID }\ntype Query { n: Node }",
		"type Org implements Node { name: String }", true, "id"},
	{"new-union-member-not-object", "interface Node { id: ID }\ntype A { x: Int }\nunion U = A\ntype Query { u: U }",
		"extend union U = Node", true, "Node"},
	{"implied-schema-extended-with-an-input-type-as-root", "type Query { a: Int }\ninput In { x: Int }", "extend schema { mutation: In }", true, "mutation"},
	{"implied-schema-extended-with-an-unknown-operation", "type Query { a: Int }", "extend schema { zork: Query }", true, "zork"},
	{"implied-schema-extended-with-a-misplaced-directive", "directive @onenum on ENUM\ntype Query { a: Int }\ntype Mut { set: Int }", "extend schema @onenum { mutation: Mut }", true, "onenum"},
	{"implied-schema-extended-with-an-object-root", "type Query { a: Int }\ntype Mut { set: Int }", "extend schema { mutation: Mut }", false, ""},
	{"unrelated-type-after-valid-load", "interface Node { id: ID }\ntype User implements Node { id: ID }\ntype Query { u: User }",
		"type Extra { x: Int }", false, ""},
}

func c13History(o *Out) {
	for _, h := range c13Histories {
		root := newLoadRoot()
		if err := safeParse(root, h.first); err != nil {
			panic("c13 history first load: " + err.Error())
		}
		before := root.SDL(false, true)
		err := safeParse(root, h.second)
		refused := err != nil
		named := true
		if refused && h.names != "" {
			named = strings.Contains(err.Error(), h.names)
		}
		unchanged := !refused || root.SDL(false, true) == before
		es := ""
		if err != nil {
			es = err.Error()
		}
		o.Count("two-load histories")
		o.Emit(Case{
			Term:       N("c13h", S(h.name), B(h.refused)),
			Obs:        N("obs", B(refused), B(named), B(unchanged)),
			Meta:       map[string]interface{}{"first": h.first, "second": h.second, "error": es},
			Nontrivial: true,
		})
	}
}
