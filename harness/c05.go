package main

import (
	"fmt"
	"strings"
	"time"

	"github.com/uhn/ggql/pkg/ggql"
)

// ---- C05: response data is well-typed (leaf, list and non-null levels) -----------------------------

var c05Scalars = []struct{ gql, wire string }{
	{"Int", "int"}, {"Int64", "int64"}, {"Float", "float"}, {"Float64", "float64"},
	{"String", "string"}, {"ID", "id"}, {"Boolean", "boolean"}, {"Time", "time"},
}

type c05Wrap struct {
	suffix string
	gql    func(string) string
	term   func(T) T
	depth  int // list nesting
}

var c05Wraps = []c05Wrap{
	{"p", func(s string) string { return s }, func(t T) T { return t }, 0},
	{"n", func(s string) string { return s + "!" }, func(t T) T { return N("nn", t) }, 0},
	{"l", func(s string) string { return "[" + s + "]" }, func(t T) T { return N("list", t) }, 1},
	{"ln", func(s string) string { return "[" + s + "!]!" }, func(t T) T { return N("nn", N("list", N("nn", t))) }, 1},
	{"ll", func(s string) string { return "[[" + s + "]]" }, func(t T) T { return N("list", N("list", t)) }, 2},
}

func c05SchemaText() string {
	var b strings.Builder
	b.WriteString("enum Color { RED GREEN BLUE }\ntype Query {\n")
	for _, s := range append(c05Scalars, struct{ gql, wire string }{"Color", "enum"}) {
		for _, w := range c05Wraps {
			fmt.Fprintf(&b, "  f_%s_%s: %s\n", s.wire, w.suffix, w.gql(s.gql))
		}
	}
	b.WriteString("}\n")
	return b.String()
}

type c05Root struct{ val interface{} }

func (r *c05Root) Resolve(f *ggql.Field, args map[string]interface{}) (interface{}, error) {
	if f.Name == "query" {
		return r, nil
	}
	return r.val, nil
}

// dataTerm renders what the resolver returns as a Data term and collects string hints.
func dataTerm(v interface{}, h hintSet) T {
	switch t := v.(type) {
	case []interface{}:
		if t == nil {
			return N("leaf", N("nil"))
		}
		ts := make([]T, len(t))
		for i, x := range t {
			ts[i] = dataTerm(x, h)
		}
		return N("list", ts...)
	case []string:
		ts := []T{A("fast")}
		for _, x := range t {
			h.add(x)
			ts = append(ts, valTerm(x))
		}
		return N("slice", ts...)
	case []int:
		ts := []T{A("fast")}
		for _, x := range t {
			ts = append(ts, valTerm(x))
		}
		return N("slice", ts...)
	case []int64:
		ts := []T{A("fast")}
		for _, x := range t {
			ts = append(ts, valTerm(x))
		}
		return N("slice", ts...)
	case []bool:
		ts := []T{A("fast")}
		for _, x := range t {
			ts = append(ts, valTerm(x))
		}
		return N("slice", ts...)
	case []float32:
		ts := []T{A("fast")}
		for _, x := range t {
			ts = append(ts, valTerm(x))
		}
		return N("slice", ts...)
	case []float64:
		ts := []T{A("fast")}
		for _, x := range t {
			ts = append(ts, valTerm(x))
		}
		return N("slice", ts...)
	case []time.Time:
		ts := []T{A("fast")}
		for _, x := range t {
			ts = append(ts, valTerm(x))
		}
		return N("slice", ts...)
	case []int32:
		ts := []T{A("reflect")}
		for _, x := range t {
			ts = append(ts, valTerm(x))
		}
		return N("slice", ts...)
	case []uint8:
		ts := []T{A("reflect")}
		for _, x := range t {
			ts = append(ts, valTerm(x))
		}
		return N("slice", ts...)
	case []uint16:
		ts := []T{A("reflect")}
		for _, x := range t {
			ts = append(ts, valTerm(x))
		}
		return N("slice", ts...)
	case [2]int:
		return N("slice", A("reflect"), valTerm(t[0]), valTerm(t[1]))
	}
	h.add(v)
	return N("leaf", valTerm(v))
}

func c05One(o *Out, root *ggql.Root, holder *c05Root, scalar struct{ gql, wire string }, w c05Wrap, val interface{}, class string) {
	holder.val = val
	field := fmt.Sprintf("f_%s_%s", scalar.wire, w.suffix)
	res := safeResolve(root, "{ "+field+" }", "", nil)
	h := hintSet{}
	dt := dataTerm(val, h)
	var tt T
	if scalar.wire == "enum" {
		tt = N("enum", S("RED"), S("GREEN"), S("BLUE"))
	} else {
		tt = N("scalar", A(scalar.wire))
	}
	tt = w.term(tt)
	var got interface{}
	if d, ok := res["data"].(map[string]interface{}); ok {
		got = d[field]
	}
	nerr := 0
	if ea, ok := res["errors"].([]interface{}); ok {
		nerr = len(ea)
	}
	if p, ok := res["panic"]; ok {
		got = fmt.Sprintf("PANIC %v", p)
		nerr = -1
	}
	o.Count("scalar=" + scalar.wire)
	o.Count("wrap=" + w.suffix)
	o.Count("class=" + class)
	o.Count(fmt.Sprintf("valkind=%T", val))
	if nerr > 0 {
		o.Count("with-error")
	}
	o.Emit(Case{
		Term:       N("c05", tt, dt, h.term()),
		Obs:        N("obs", outTerm(got), I(int64(nerr))),
		Meta:       map[string]interface{}{"field": field, "type": w.gql(scalar.gql), "value": fmt.Sprintf("%T %v", val, val), "response": fmt.Sprint(res)},
		Nontrivial: val != nil,
	})
}

func init() {
	props["C05"] = func(o *Out, rng *Rng, tier string) {
		holder := &c05Root{}
		root := ggql.NewRoot(holder)
		if err := root.ParseString(c05SchemaText()); err != nil {
			panic(err)
		}
		leafs := allLeafValues()
		all := append(c05Scalars, struct{ gql, wire string }{"Color", "enum"})
		// exhaustive: every (scalar × value) at plain and non-null position
		for _, s := range all {
			for _, v := range leafs {
				c05One(o, root, holder, s, c05Wraps[0], v, "leaf-table")
			}
		}
		for _, s := range all {
			for i, v := range leafs {
				if i%3 == 0 {
					c05One(o, root, holder, s, c05Wraps[1], v, "leaf-nonnull")
				}
			}
		}
		// lists: every list kind, random elements
		n := 3000
		if tier == "thorough" {
			n = 150000
		}
		for k := 0; k < n; k++ {
			s := Pick(rng, all)
			w := c05Wraps[2+rng.Intn(3)]
			var val interface{}
			mk := func(depth int) interface{} { return nil }
			var mkf func(depth int) interface{}
			mkf = func(depth int) interface{} {
				if depth == 0 {
					return Pick(rng, leafs)
				}
				// typed Go slices: mostly where the innermost list is declared, sometimes one level up (a flat typed
				// slice where a list of lists is declared: every member is then a non-list under a list type)
				if (depth == 1 && rng.Chance(35)) || (depth > 1 && rng.Chance(12)) {
					switch rng.Intn(10) {
					case 0:
						return []string{Pick(rng, boundaryStrings), Pick(rng, boundaryStrings)}
					case 1:
						return []int{int(Pick(rng, boundaryInts)), 3}
					case 2:
						return []int64{Pick(rng, boundaryInts)}
					case 3:
						return []bool{true, false}
					case 4:
						return []float32{float32(Pick(rng, boundaryFloats))}
					case 5:
						return []float64{Pick(rng, boundaryFloats), 1.5}
					case 6:
						return []time.Time{time.Unix(1, 5).UTC(), {}}
					case 7:
						return []int32{1, -5, 77}
					case 8:
						return []uint16{9, 65535}
					default:
						return [2]int{int(Pick(rng, boundaryInts)), -1}
					}
				}
				if rng.Chance(8) {
					return Pick(rng, leafs) // a non-list where a list is declared
				}
				ln := rng.Intn(4)
				l := make([]interface{}, ln)
				for i := range l {
					l[i] = mkf(depth - 1)
				}
				return l
			}
			_ = mk
			val = mkf(w.depth)
			c05One(o, root, holder, s, w, val, "lists")
		}
		// whole walks: objects, interfaces and unions whose members type a same-named field differently; every
		// leaf must come out with the shape of the field of the *object it belongs to*
		for k := 0; k < n/4; k++ {
			r := rng.Fork()
			walkCase(o, r, "C05", docOpts{collisions: false, abstract: r.Chance(40), maxDepth: 3}, nil)
		}
	}
}
