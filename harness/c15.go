package main

import (
	"fmt"
	"go/ast"
	"go/parser"
	"go/token"
	"os"
	"os/exec"
	"path/filepath"
	"sort"
	"strconv"
	"strings"

	"github.com/uhn/ggql/pkg/ggql"
)

// ---- C15: printed SDL re-parses to the same schema ---------------------------------------------------

// toolRewrite runs the real `ggqlgen -w` (built from the current tree) on a file holding sdl and returns what
// the tool wrote back.  There is no hand-written stand-in for the tool: what is observed is its own output.
func toolRewrite(toolBin, dir, sdl string) (string, error) {
	if toolBin == "" {
		return "", fmt.Errorf("ggqlgen did not build")
	}
	f := filepath.Join(dir, "s.graphql")
	if err := os.WriteFile(f, []byte(sdl), 0o600); err != nil {
		return "", err
	}
	if out, err := exec.Command(toolBin, "-w", f).CombinedOutput(); err != nil {
		return "", fmt.Errorf("ggqlgen -w: %v: %s", err, strings.TrimSpace(string(out)))
	}
	got, err := os.ReadFile(f)
	return string(got), err
}

// toolEmbed runs the real `ggqlgen -e` on a file holding sdl and returns the value of the string constant in
// the Go file the tool wrote, as a Go compiler evaluates it (raw and interpreted literals, `+`).
func toolEmbed(toolBin, dir, sdl string) (string, error) {
	if toolBin == "" {
		return "", fmt.Errorf("ggqlgen did not build")
	}
	f := filepath.Join(dir, "e.graphql")
	dest := filepath.Join(dir, "e.go")
	if err := os.WriteFile(f, []byte(sdl), 0o600); err != nil {
		return "", err
	}
	if out, err := exec.Command(toolBin, "-e", f+":"+dest+":Schema", f).CombinedOutput(); err != nil {
		return "", fmt.Errorf("ggqlgen -e: %v: %s", err, strings.TrimSpace(string(out)))
	}
	file, err := parser.ParseFile(token.NewFileSet(), dest, nil, parser.AllErrors)
	if err != nil {
		return "", fmt.Errorf("embed file is not Go: %v", err)
	}
	var eval func(e ast.Expr) (string, error)
	eval = func(e ast.Expr) (string, error) {
		switch te := e.(type) {
		case *ast.BasicLit:
			if te.Kind == token.STRING {
				return strconv.Unquote(te.Value)
			}
		case *ast.ParenExpr:
			return eval(te.X)
		case *ast.BinaryExpr:
			if te.Op == token.ADD {
				x, err := eval(te.X)
				if err != nil {
					return "", err
				}
				y, err := eval(te.Y)
				return x + y, err
			}
		}
		return "", fmt.Errorf("embed constant is not a string expression")
	}
	for _, d := range file.Decls {
		if gd, ok := d.(*ast.GenDecl); ok && gd.Tok == token.CONST {
			for _, sp := range gd.Specs {
				if vs, ok := sp.(*ast.ValueSpec); ok && len(vs.Names) == 1 && vs.Names[0].Name == "Schema" && len(vs.Values) == 1 {
					return eval(vs.Values[0])
				}
			}
		}
	}
	return "", fmt.Errorf("embed file has no Schema constant")
}

// descriptions a Go raw string literal can not hold as they are
var c15Descs = append(append([]string{}, sDescsHard...), "a `tick` inside", "`", "carriage\rreturn", "`\r`")

type c15Res struct {
	accepted   bool // the printed text is accepted by a fresh root
	sameSchema bool // and defines the same schema (introspection data equal)
	fixedPoint bool // and printing that again yields the same text
	err        string
}

func c15RoundTrip(printed string, baseIntro string, reprint func(*ggql.Root) string) c15Res {
	return c15RoundTripD(printed, baseIntro, "", false, reprint)
}

// c15RoundTripD also compares the directive uses (introspection does not show them)
func c15RoundTripD(printed string, baseIntro, baseUses string, withUses bool, reprint func(*ggql.Root) string) c15Res {
	root2 := newLoadRoot()
	if err := safeParse(root2, printed); err != nil {
		return c15Res{err: err.Error()}
	}
	res := safeResolve(root2, introQuery, "", nil)
	intro2 := canon(map[string]interface{}{"data": res["data"]})
	same := intro2 == baseIntro
	if withUses && same {
		uses2, _, _ := dirUseDump(root2)
		same = uses2 == baseUses
	}
	return c15Res{accepted: true, sameSchema: same, fixedPoint: reprint(root2) == printed}
}

func hasHardDesc(set *sSet) (backslash, quote, triple bool) {
	check := func(d string) {
		if strings.Contains(d, `\`) {
			backslash = true
		}
		if strings.Contains(d, `"""`) {
			triple = true
		} else if strings.Contains(d, `"`) {
			quote = true
		}
	}
	for _, d := range set.defs {
		check(d.desc)
		for _, f := range d.fields {
			check(f.desc)
			for _, a := range f.args {
				check(a.desc)
			}
		}
		for _, v := range d.values {
			check(v.desc)
		}
		for _, f := range d.inFields {
			check(f.desc)
		}
		for _, a := range d.dirArgs {
			check(a.desc)
		}
	}
	return
}

func (s *sSet) hasDirective() bool {
	for _, d := range s.defs {
		if d.kind == "directive" {
			return true
		}
	}
	return false
}

// usesDirective: some definition of the set carries a use of a directive the set defines (then a rewrite
// without the directive definitions does not load at all; without a use it loads but is a different schema)
func (s *sSet) usesDirective() bool {
	defined := map[string]bool{}
	for _, d := range s.defs {
		if d.kind == "directive" {
			defined[d.name] = true
		}
	}
	any := func(ds []sDirUse) bool {
		for _, u := range ds {
			if defined[u.name] {
				return true
			}
		}
		return false
	}
	for _, d := range s.defs {
		if any(d.dirs) {
			return true
		}
		for _, f := range d.fields {
			if any(f.dirs) {
				return true
			}
			for _, a := range f.args {
				if any(a.dirs) {
					return true
				}
			}
		}
		for _, v := range d.values {
			if any(v.dirs) {
				return true
			}
		}
		for _, f := range d.inFields {
			if any(f.dirs) {
				return true
			}
		}
		for _, a := range d.dirArgs {
			if any(a.dirs) {
				return true
			}
		}
	}
	return false
}

// genSetSDL renders descriptions the way a schema author writes them: block strings for anything with
// a quote, a backslash or a newline (so the *input* is always valid SDL; the question is the output)
func (s *sSet) authorSDL() string {
	t := s.sdl(true)
	return t
}

func c15Case(o *Out, r *Rng, toolBin, toolDir string) {
	hard := r.Chance(50)
	set := genSet(r, sdlOpts{hardDescs: false, defaults: true, dirUses: r.Chance(60), schemaBlk: r.Chance(20)})
	// hard descriptions are injected through the Go API after loading (the property quantifies over
	// accepted schemas, however they came to be): a description is a plain Go string
	root := newLoadRoot()
	authored := set.sdl(true)
	if r.Chance(35) {
		// descriptions written in the quoted form with escapes, not in the form the reader normalises block strings
		// to (indentation, blank lines, padding): whatever the root keeps of them must survive print and re-parse
		d := Pick(r, []string{`"Usage:\n\n    query { a }\n\nEnd."`, `" the \"a\" field "`, `"first\n  - indented"`, `"tab\there\n\n\nthree"`, `"  padded  "`})
		authored += d + "\ntype DescExtra { " + d + " x: Int }\n"
		o.Count("quoted-description-with-escapes")
	}
	if err := safeParse(root, authored); err != nil {
		o.Count("generated-schema-rejected")
		return
	}
	var bs, qt, tq bool
	if hard {
		for _, t := range root.Types() {
			if t.Core() {
				continue
			}
			var base *ggql.Base
			switch tt := t.(type) {
			case *ggql.Object:
				base = &tt.Base
			case *ggql.Interface:
				base = &tt.Base
			case *ggql.Enum:
				base = &tt.Base
			case *ggql.Union:
				base = &tt.Base
			case *ggql.Input:
				base = &tt.Base
			}
			if base != nil && r.Chance(40) {
				base.Desc = Pick(r, c15Descs)
				if strings.Contains(base.Desc, `\`) {
					bs = true
				}
				if strings.Contains(base.Desc, `"""`) {
					tq = true
				} else if strings.Contains(base.Desc, `"`) {
					qt = true
				}
			}
		}
	}
	res := safeResolve(root, introQuery, "", nil)
	baseIntro := canon(map[string]interface{}{"data": res["data"]})
	baseUses, nUses, nNulls := dirUseDump(root)
	o.CountN("directive-uses-compared", nUses)
	o.CountN("directive-use-null-arguments", nNulls)
	whole := c15RoundTripD(root.SDL(false, true), baseIntro, baseUses, true, func(r2 *ggql.Root) string { return r2.SDL(false, true) })
	// the tool reads the printed form (the hard descriptions exist only in the root, not in the generated text)
	var tool c15Res
	if rewritten, err := toolRewrite(toolBin, toolDir, root.SDL(false, true)); err != nil {
		tool = c15Res{err: err.Error()}
	} else {
		tool = c15RoundTripD(rewritten, baseIntro, baseUses, true, func(*ggql.Root) string { return rewritten })
		o.Count("real-ggqlgen-runs")
	}
	printed := root.SDL(false, true)
	tick, cr := strings.Contains(printed, "`"), strings.Contains(printed, "\r")
	var embed c15Res
	if embedded, err := toolEmbed(toolBin, toolDir, printed); err != nil {
		embed = c15Res{err: err.Error()}
	} else {
		embed = c15RoundTripD(embedded, baseIntro, baseUses, true, func(*ggql.Root) string { return embedded })
	}
	if tick {
		o.Count("printed-has-backtick")
	}
	if cr {
		o.Count("printed-has-carriage-return")
	}
	class := "plain"
	if bs {
		class = "backslash"
	} else if tq {
		class = "triple-quote"
	} else if qt {
		class = "quote-or-newline"
	}
	o.Count("desc=" + class)
	if set.hasDirective() {
		o.Count("has-directive-definition")
	}
	o.Emit(Case{
		Term: N("c15", B(bs), B(tq), B(set.hasDirective()), B(set.usesDirective()), B(tick), B(cr)),
		Obs:  N("obs", B(whole.accepted), B(whole.sameSchema), B(whole.fixedPoint), B(tool.accepted), B(tool.sameSchema), B(embed.accepted), B(embed.sameSchema)),
		Meta: map[string]interface{}{"printed": root.SDL(false, true), "whole_err": whole.err, "tool_err": tool.err, "embed_err": embed.err},
		Key:  root.SDL(false, true), Nontrivial: true,
	})
}

func init() {
	props["C15"] = func(o *Out, rng *Rng, tier string) {
		ggql.Sort = true
		tagUseNull = true
		defer func() { ggql.Sort = false; tagUseNull = false }()
		toolBin := ""
		// build the real tool from the current tree
		bin := filepath.Join(os.TempDir(), fmt.Sprintf("ggqlgen-%d", os.Getpid()))
		repo := os.Getenv("VERIF_REPO")
		if repo == "" {
			repo = "/repo"
		}
		cmd := exec.Command("go", "build", "-o", bin, "./cmd/ggqlgen")
		cmd.Dir = repo
		if err := cmd.Run(); err == nil {
			toolBin = bin
			defer os.Remove(bin)
		}
		toolDir, _ := os.MkdirTemp("", "c15tool")
		defer os.RemoveAll(toolDir)
		n := 700
		if tier == "thorough" {
			n = 30000
		}
		for i := 0; i < n; i++ {
			c15Case(o, rng.Fork(), toolBin, toolDir)
		}
	}
}

// ---- directive uses: part of the schema, invisible to introspection ---------------------------------

const dirDefaultsQuery = `{ __schema { directives { name args { name defaultValue } } } }`

// dirDefaults: directive name -> argument name -> printed default ("null" when there is none)
func dirDefaults(root *ggql.Root) map[string]map[string]string {
	out := map[string]map[string]string{}
	res := safeResolve(root, dirDefaultsQuery, "", nil)
	data, _ := res["data"].(map[string]interface{})
	sch, _ := data["__schema"].(map[string]interface{})
	ds, _ := sch["directives"].([]interface{})
	for _, d := range ds {
		dm, _ := d.(map[string]interface{})
		name, _ := dm["name"].(string)
		args := map[string]string{}
		as, _ := dm["args"].([]interface{})
		for _, a := range as {
			am, _ := a.(map[string]interface{})
			an, _ := am["name"].(string)
			dv, ok := am["defaultValue"].(string)
			if !ok {
				dv = "null"
			}
			args[an] = dv
		}
		out[name] = args
	}
	return out
}

// useString renders a use by what it means: every argument of the directive with the value given for it,
// or else its default (the parser fills the defaults in only when the directive is already known, so the
// stored argument map alone is not the meaning), or else null.  `@d(n: null)` and `@d` differ exactly
// when n has a non-null default.
func useString(du *ggql.DirectiveUse, defs map[string]map[string]string) string {
	name := "?"
	if du.Directive != nil {
		name = du.Directive.Name()
	}
	eff := map[string]string{}
	for an, dv := range defs[name] {
		eff[an] = dv
	}
	for an, av := range du.Args {
		var b strings.Builder
		if av != nil {
			_ = av.Write(&b)
		}
		s := b.String()
		if i := strings.Index(s, ": "); 0 <= i {
			s = s[i+2:]
		}
		eff[an] = s
	}
	keys := make([]string, 0, len(eff))
	for k := range eff {
		keys = append(keys, k)
	}
	sort.Strings(keys)
	var b strings.Builder
	b.WriteString("@" + name + "(")
	for _, k := range keys {
		b.WriteString(k + "=" + eff[k] + ";")
	}
	b.WriteString(")")
	return b.String()
}

// dirUseDump lists every directive use of every non-core type with where it sits.
func dirUseDump(root *ggql.Root) (dump string, uses, nulls int) {
	defs := dirDefaults(root)
	var lines []string
	add := func(where string, dus []*ggql.DirectiveUse) {
		for i, du := range dus {
			if du == nil {
				continue
			}
			uses++
			for _, av := range du.Args {
				if av != nil && av.Value == nil {
					nulls++
				}
			}
			lines = append(lines, fmt.Sprintf("%s#%d %s", where, i, useString(du, defs)))
		}
	}
	fields := func(tn string, fs []*ggql.FieldDef) {
		for _, f := range fs {
			add(tn+"."+f.N, f.Dirs)
			for _, a := range f.Args() {
				add(tn+"."+f.N+"("+a.N+")", a.Dirs)
			}
		}
	}
	for _, t := range root.Types() {
		if t.Core() {
			continue
		}
		tn := t.Name()
		add(tn, t.Directives())
		switch tt := t.(type) {
		case *ggql.Object:
			fields(tn, tt.Fields())
		case *ggql.Interface:
			fields(tn, tt.Fields())
		case *ggql.Input:
			for _, f := range tt.Fields() {
				add(tn+"."+f.N, f.Dirs)
			}
		case *ggql.Enum:
			for _, v := range tt.Values() {
				add(tn+"."+string(v.Value), v.Directives)
			}
		}
	}
	sort.Strings(lines)
	return strings.Join(lines, "\n") + "\n-- defaults by meaning --\n" + defaultDump(root), uses, nulls
}

// defaultMeaning: a default value as the number, text, name, list or map it stands for.  Numbers are written by
// strconv here (shortest text that reads back to the same float64), never by the library's writer, and an integral
// Float default and the Int it re-parses as are one number: a printer that rounds 0.30000000000000004 to 0.3 keeps
// introspection and a second print in agreement with themselves, and only the value shows the loss.
func defaultMeaning(v interface{}) string {
	switch tv := v.(type) {
	case nil:
		return "null"
	case int:
		return strconv.FormatFloat(float64(tv), 'g', -1, 64)
	case int32:
		return strconv.FormatFloat(float64(tv), 'g', -1, 64)
	case int64:
		return strconv.FormatFloat(float64(tv), 'g', -1, 64)
	case float32:
		return strconv.FormatFloat(float64(tv), 'g', -1, 64)
	case float64:
		return strconv.FormatFloat(tv, 'g', -1, 64)
	case string:
		return strconv.Quote(tv)
	case ggql.Symbol:
		return "sym:" + string(tv)
	case bool:
		return strconv.FormatBool(tv)
	case []interface{}:
		var xs []string
		for _, m := range tv {
			xs = append(xs, defaultMeaning(m))
		}
		return "[" + strings.Join(xs, ",") + "]"
	case map[string]interface{}:
		var ks []string
		for k := range tv {
			ks = append(ks, k)
		}
		sort.Strings(ks)
		var xs []string
		for _, k := range ks {
			xs = append(xs, strconv.Quote(k)+":"+defaultMeaning(tv[k]))
		}
		return "{" + strings.Join(xs, ",") + "}"
	}
	return fmt.Sprintf("%T:%v", v, v)
}

// defaultDump: every argument and input-field default of the non-core types, by meaning
func defaultDump(root *ggql.Root) string {
	var lines []string
	fields := func(tn string, fs []*ggql.FieldDef) {
		for _, f := range fs {
			for _, a := range f.Args() {
				if a.Default != nil {
					lines = append(lines, tn+"."+f.N+"("+a.N+") = "+defaultMeaning(a.Default))
				}
			}
		}
	}
	for _, t := range root.Types() {
		if t.Core() {
			continue
		}
		tn := t.Name()
		switch tt := t.(type) {
		case *ggql.Object:
			fields(tn, tt.Fields())
		case *ggql.Interface:
			fields(tn, tt.Fields())
		case *ggql.Input:
			for _, f := range tt.Fields() {
				if f.Default != nil {
					lines = append(lines, tn+"."+f.N+" = "+defaultMeaning(f.Default))
				}
			}
		}
	}
	sort.Strings(lines)
	return strings.Join(lines, "\n")
}
