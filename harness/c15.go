package main

import (
	"fmt"
	"os"
	"os/exec"
	"path/filepath"
	"strings"

	"github.com/uhn/ggql/pkg/ggql"
)

// ---- C15: printed SDL re-parses to the same schema ---------------------------------------------------

// toolRewrite is what `ggqlgen -w` writes back: the concatenation of t.SDL(true) over root.Types()
func toolRewrite(root *ggql.Root) string {
	var b strings.Builder
	for _, t := range root.Types() {
		if t.Core() {
			continue
		}
		b.WriteString("\n")
		b.WriteString(t.SDL(true))
	}
	return b.String()
}

type c15Res struct {
	accepted   bool // the printed text is accepted by a fresh root
	sameSchema bool // and defines the same schema (introspection data equal)
	fixedPoint bool // and printing that again yields the same text
	err        string
}

func c15RoundTrip(printed string, baseIntro string, reprint func(*ggql.Root) string) c15Res {
	root2 := newLoadRoot()
	if err := safeParse(root2, printed); err != nil {
		return c15Res{err: err.Error()}
	}
	res := safeResolve(root2, introQuery, "", nil)
	intro2 := canon(map[string]interface{}{"data": res["data"]})
	return c15Res{accepted: true, sameSchema: intro2 == baseIntro, fixedPoint: reprint(root2) == printed}
}

func hasHardDesc(set *sSet) (backslash, quote, triple bool) {
	check := func(d string) {
		if strings.Contains(d, `\`) {
			backslash = true
		}
		if strings.Contains(d, `"""`) {
			triple = true
		} else if strings.Contains(d, `"`) {
			quote = true
		}
	}
	for _, d := range set.defs {
		check(d.desc)
		for _, f := range d.fields {
			check(f.desc)
			for _, a := range f.args {
				check(a.desc)
			}
		}
		for _, v := range d.values {
			check(v.desc)
		}
		for _, f := range d.inFields {
			check(f.desc)
		}
		for _, a := range d.dirArgs {
			check(a.desc)
		}
	}
	return
}

func (s *sSet) hasDirective() bool {
	for _, d := range s.defs {
		if d.kind == "directive" {
			return true
		}
	}
	return false
}

// usesDirective: some definition of the set carries a use of a directive the set defines (then a rewrite
// without the directive definitions does not load at all; without a use it loads but is a different schema)
func (s *sSet) usesDirective() bool {
	defined := map[string]bool{}
	for _, d := range s.defs {
		if d.kind == "directive" {
			defined[d.name] = true
		}
	}
	any := func(ds []sDirUse) bool {
		for _, u := range ds {
			if defined[u.name] {
				return true
			}
		}
		return false
	}
	for _, d := range s.defs {
		if any(d.dirs) {
			return true
		}
		for _, f := range d.fields {
			if any(f.dirs) {
				return true
			}
			for _, a := range f.args {
				if any(a.dirs) {
					return true
				}
			}
		}
		for _, v := range d.values {
			if any(v.dirs) {
				return true
			}
		}
		for _, f := range d.inFields {
			if any(f.dirs) {
				return true
			}
		}
		for _, a := range d.dirArgs {
			if any(a.dirs) {
				return true
			}
		}
	}
	return false
}

// genSetSDL renders descriptions the way a schema author writes them: block strings for anything with
// a quote, a backslash or a newline (so the *input* is always valid SDL; the question is the output)
func (s *sSet) authorSDL() string {
	t := s.sdl(true)
	return t
}

func c15Case(o *Out, r *Rng, toolBin string) {
	hard := r.Chance(50)
	set := genSet(r, sdlOpts{hardDescs: false, defaults: true, dirUses: r.Chance(60), schemaBlk: r.Chance(20)})
	// hard descriptions are injected through the Go API after loading (the property quantifies over
	// accepted schemas, however they came to be): a description is a plain Go string
	root := newLoadRoot()
	if err := safeParse(root, set.sdl(true)); err != nil {
		o.Count("generated-schema-rejected")
		return
	}
	var bs, qt, tq bool
	if hard {
		for _, t := range root.Types() {
			if t.Core() {
				continue
			}
			var base *ggql.Base
			switch tt := t.(type) {
			case *ggql.Object:
				base = &tt.Base
			case *ggql.Interface:
				base = &tt.Base
			case *ggql.Enum:
				base = &tt.Base
			case *ggql.Union:
				base = &tt.Base
			case *ggql.Input:
				base = &tt.Base
			}
			if base != nil && r.Chance(40) {
				base.Desc = Pick(r, sDescsHard)
				if strings.Contains(base.Desc, `\`) {
					bs = true
				}
				if strings.Contains(base.Desc, `"""`) {
					tq = true
				} else if strings.Contains(base.Desc, `"`) {
					qt = true
				}
			}
		}
	}
	res := safeResolve(root, introQuery, "", nil)
	baseIntro := canon(map[string]interface{}{"data": res["data"]})
	whole := c15RoundTrip(root.SDL(false, true), baseIntro, func(r2 *ggql.Root) string { return r2.SDL(false, true) })
	tool := c15RoundTrip(toolRewrite(root), baseIntro, toolRewrite)
	class := "plain"
	if bs {
		class = "backslash"
	} else if tq {
		class = "triple-quote"
	} else if qt {
		class = "quote-or-newline"
	}
	o.Count("desc=" + class)
	if set.hasDirective() {
		o.Count("has-directive-definition")
	}
	o.Emit(Case{
		Term: N("c15", B(bs), B(tq), B(set.hasDirective()), B(set.usesDirective())),
		Obs:  N("obs", B(whole.accepted), B(whole.sameSchema), B(whole.fixedPoint), B(tool.accepted), B(tool.sameSchema)),
		Meta: map[string]interface{}{"printed": root.SDL(false, true), "whole_err": whole.err, "tool_err": tool.err},
		Key:  root.SDL(false, true), Nontrivial: true,
	})
	// the real tool on a temp file, for a sample of cases
	if toolBin != "" && r.Chance(4) {
		dir, _ := os.MkdirTemp("", "c15tool")
		defer os.RemoveAll(dir)
		f := filepath.Join(dir, "s.graphql")
		_ = os.WriteFile(f, []byte(root.SDL(false, true)), 0o600)
		out, err := exec.Command(toolBin, "-w", f).CombinedOutput()
		got, _ := os.ReadFile(f)
		same := err == nil && string(got) == toolRewrite(root)
		o.Count("real-ggqlgen-runs")
		if !same && whole.accepted {
			o.Count("real-ggqlgen-differs")
			_ = out
		}
	}
}

func init() {
	props["C15"] = func(o *Out, rng *Rng, tier string) {
		ggql.Sort = true
		defer func() { ggql.Sort = false }()
		toolBin := ""
		// build the real tool from the current tree
		bin := filepath.Join(os.TempDir(), fmt.Sprintf("ggqlgen-%d", os.Getpid()))
		repo := os.Getenv("VERIF_REPO")
		if repo == "" {
			repo = "/repo"
		}
		cmd := exec.Command("go", "build", "-o", bin, "./cmd/ggqlgen")
		cmd.Dir = repo
		if err := cmd.Run(); err == nil {
			toolBin = bin
			defer os.Remove(bin)
		}
		n := 700
		if tier == "thorough" {
			n = 30000
		}
		for i := 0; i < n; i++ {
			c15Case(o, rng.Fork(), toolBin)
		}
	}
}
