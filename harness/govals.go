package main

import (
	"encoding/hex"
	"fmt"
	"math"
	"strconv"
	"time"

	"github.com/uhn/ggql/pkg/ggql"
)

// ---- Go values <-> wire terms (shared by C04 / C05) -----------------------------------------------

func f64bits(f float64) T { return A(strconv.FormatUint(math.Float64bits(f), 10)) }

// valTerm renders a Go value as a GoVal term; ok=false for kinds the model calls "other".
func valTerm(v interface{}) T {
	if ggql.IsNil(v) {
		return N("nil")
	}
	switch t := v.(type) {
	case int:
		return N("int", A("int"), I(int64(t)))
	case int8:
		return N("int", A("i8"), I(int64(t)))
	case int16:
		return N("int", A("i16"), I(int64(t)))
	case int32:
		return N("int", A("i32"), I(int64(t)))
	case int64:
		return N("int", A("i64"), I(t))
	case uint:
		return N("int", A("uint"), A(strconv.FormatUint(uint64(t), 10)))
	case uint8:
		return N("int", A("u8"), I(int64(t)))
	case uint16:
		return N("int", A("u16"), I(int64(t)))
	case uint32:
		return N("int", A("u32"), I(int64(t)))
	case uint64:
		return N("int", A("u64"), A(strconv.FormatUint(t, 10)))
	case float32:
		return N("f32", f64bits(float64(t)))
	case float64:
		return N("f64", f64bits(t))
	case string:
		return N("str", S(t))
	case bool:
		return N("bool", B(t))
	case ggql.Symbol:
		return N("sym", S(string(t)))
	case time.Time:
		return N("time", I(t.UnixNano()))
	}
	return N("other", S(fmt.Sprintf("%T", v)))
}

// outTerm renders a response value (result tree) as an ROut term.
func outTerm(v interface{}) T {
	if l, ok := v.([]interface{}); ok && l != nil {
		ts := make([]T, len(l))
		for i, x := range l {
			ts[i] = outTerm(x)
		}
		return N("list", ts...)
	}
	return N("leaf", valTerm(v))
}

type hintSet map[string]bool

func (h hintSet) add(v interface{}) {
	if s, ok := v.(string); ok {
		h[s] = true
	}
}

func (h hintSet) term() T {
	var ts []T
	for s := range h {
		pf, pt := A("none"), A("none")
		if f, err := strconv.ParseFloat(s, 64); err == nil {
			pf = f64bits(f)
		}
		if t, err := time.Parse(time.RFC3339Nano, s); err == nil {
			pt = I(t.UnixNano())
		}
		ts = append(ts, N("h", A("x"+hex.EncodeToString([]byte(s))), pf, pt))
	}
	// deterministic order
	for i := 0; i < len(ts); i++ {
		for j := i + 1; j < len(ts); j++ {
			if ts[j].String() < ts[i].String() {
				ts[i], ts[j] = ts[j], ts[i]
			}
		}
	}
	return LS(ts)
}

var boundaryInts = []int64{0, 1, -1, 7, 127, 128, -128, -129, 255, 256, 32767, 32768, -32768, 65535, 65536,
	math.MaxInt32, math.MaxInt32 + 1, math.MinInt32, math.MinInt32 - 1, 4294967295, 4294967296, 4294967297,
	1 << 40, 1 << 53, 1<<53 + 1, math.MaxInt64, math.MinInt64}

var boundaryUints = []uint64{0, 1, 255, 65535, 4294967295, 4294967296, 1 << 53, 1<<63 - 1, 1 << 63, 1<<63 + 5, math.MaxUint64}

var boundaryFloats = []float64{0, math.Copysign(0, -1), 1, -1, 1.5, 3.7, -3.7, 3.0, 0.1, 2147483647, 2147483648, -2147483648,
	-2147483649, 2147483647.5, 4294967296, 9007199254740992, 9007199254740993, 9.3e18, -9.3e18, 1e19, 1e300, -1e300,
	math.MaxFloat32, math.MaxFloat32 * 1.0000001, 3.5e38, math.SmallestNonzeroFloat64, math.SmallestNonzeroFloat32,
	math.NaN(), math.Inf(1), math.Inf(-1), 1e-10, 123456.789}

var boundaryStrings = []string{"abc", "", "12", "-7", "+5", "4294967297", "2147483648", "9223372036854775807",
	"9223372036854775808", "1.5", "1e3", " 1", "1 ", "0x10", "1_000", "NaN", "Inf", "-Inf", "1e400", "true", "false", "T", "F",
	"TRUE", "yes", "1", "0", "2020-01-02T03:04:05Z", "2020-01-02T03:04:05.123456789+02:00", "2020-13-45", "RED", "NOPE", "é\"\\\n"}

// allLeafValues: every Go kind at its boundaries, plus wrong kinds.
func allLeafValues() []interface{} {
	var vs []interface{}
	vs = append(vs, nil)
	for _, n := range boundaryInts {
		vs = append(vs, int64(n))
		if n >= math.MinInt32 && n <= math.MaxInt32 {
			vs = append(vs, int32(n), int(n))
		} else {
			vs = append(vs, int(n))
		}
		if n >= -128 && n <= 127 {
			vs = append(vs, int8(n))
		}
		if n >= -32768 && n <= 32767 {
			vs = append(vs, int16(n))
		}
	}
	for _, n := range boundaryUints {
		vs = append(vs, uint64(n), uint(n))
		if n <= 255 {
			vs = append(vs, uint8(n))
		}
		if n <= 65535 {
			vs = append(vs, uint16(n))
		}
		if n <= 4294967295 {
			vs = append(vs, uint32(n))
		}
	}
	for _, f := range boundaryFloats {
		vs = append(vs, f, float32(f))
	}
	for _, s := range boundaryStrings {
		vs = append(vs, s)
	}
	vs = append(vs, true, false, ggql.Symbol("RED"), ggql.Symbol("NOPE"),
		time.Date(2021, 3, 4, 5, 6, 7, 8, time.UTC), time.Unix(0, 0).UTC(), time.Time{}, time.Unix(-1, 0).UTC(),
		time.Date(9999, 12, 31, 23, 59, 59, 0, time.UTC),
		struct{ A int }{1}, map[string]interface{}{"a": 1}, (*int)(nil), []byte("xy"), complex(1, 2))
	return vs
}
