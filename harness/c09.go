package main

import (
	"fmt"
	"strings"

	"github.com/uhn/ggql/pkg/ggql"
)

// ---- C09: @skip / @include ------------------------------------------------------------------

const c09Schema = `
type Query { a: Int b: Int o: Obj }
type Obj { a: Int b: Int o: Obj }
`

// c09Extra: types named like the directives (a directive use names a directive whatever types the schema has)
var c09Extra string

const c09Namesakes = "type skip { z: Int }\ntype include { z: Int }\ninput deprecated { z: Int }\n"

// recNode is an interface-strategy resolver that logs every invocation.
type recNode struct{ log *[]string }

func (n *recNode) Resolve(f *ggql.Field, args map[string]interface{}) (interface{}, error) {
	*n.log = append(*n.log, f.Name)
	switch f.Name {
	case "a":
		return 1, nil
	case "b":
		return 7, nil
	case "o", "query", "mutation":
		return n, nil
	}
	return nil, nil
}

type c09Src int

const (
	sAbsent c09Src = iota
	sLitT
	sLitF
	sVarT
	sVarF
	sDefT
	sDefF
	sBad // declared Boolean variable without default and without value
)

var c09SrcNames = []string{"absent", "litT", "litF", "varT", "varF", "defT", "defF", "bad"}

type c09Dir struct {
	name string // skip | include
	src  c09Src
}

// build returns the document text, the variable map, and the wire terms of dirs and vars.
func c09Build(dirs []c09Dir, kind, depth int) (doc string, vars map[string]interface{}, dt []T, vt []T) {
	vars = map[string]interface{}{}
	var defs []string
	var ds []string
	for i, d := range dirs {
		vn := fmt.Sprintf("v%d", i)
		wn := d.name
		if wn == "include" {
			wn = "incl"
		}
		switch d.src {
		case sLitT, sLitF:
			b := d.src == sLitT
			ds = append(ds, fmt.Sprintf("@%s(if: %v)", d.name, b))
			dt = append(dt, N("d", A(wn), N("lit", B(b))))
		case sVarT, sVarF:
			b := d.src == sVarT
			defs = append(defs, "$"+vn+": Boolean")
			vars[vn] = b
			ds = append(ds, fmt.Sprintf("@%s(if: $%s)", d.name, vn))
			dt = append(dt, N("d", A(wn), N("var", S(vn))))
			vt = append(vt, N("v", S(vn), B(b)))
		case sDefT, sDefF:
			b := d.src == sDefT
			defs = append(defs, fmt.Sprintf("$%s: Boolean = %v", vn, b))
			ds = append(ds, fmt.Sprintf("@%s(if: $%s)", d.name, vn))
			dt = append(dt, N("d", A(wn), N("var", S(vn))))
			vt = append(vt, N("v", S(vn), B(b)))
		case sBad:
			defs = append(defs, "$"+vn+": Boolean")
			ds = append(ds, fmt.Sprintf("@%s(if: $%s)", d.name, vn))
			dt = append(dt, N("d", A(wn), N("var", S(vn))))
			vt = append(vt, N("v", S(vn), A("other")))
		}
	}
	dtxt := strings.Join(ds, " ")
	con := "Query"
	if depth > 0 {
		con = "Obj"
	}
	var sel, frag string
	switch kind {
	case 0:
		sel = "b " + dtxt
	case 1:
		sel = "... on " + con + " " + dtxt + " { b }"
	case 2:
		sel = "... " + dtxt + " { b }"
	case 3:
		sel = "...F " + dtxt
		frag = " fragment F on " + con + " { b }"
	}
	body := "a " + sel
	for i := 0; i < depth; i++ {
		body = "o { " + body + " }"
	}
	hdr := "query Q"
	if len(defs) > 0 {
		hdr += "(" + strings.Join(defs, ", ") + ")"
	}
	doc = hdr + " { " + body + " }" + frag
	return
}

func c09Run(o *Out, dirs []c09Dir, kind, depth int, class string) {
	doc, vars, dt, vt := c09Build(dirs, kind, depth)
	var log []string
	root := ggql.NewRoot(&recNode{log: &log})
	if err := root.ParseString(c09Schema + c09Extra); err != nil {
		panic(err)
	}
	res := safeResolve(root, doc, "", vars)
	// walk to the container
	cur, _ := res["data"].(map[string]interface{})
	for i := 0; i < depth && cur != nil; i++ {
		cur, _ = cur["o"].(map[string]interface{})
	}
	present := false
	if cur != nil {
		_, present = cur["b"]
	}
	calls := 0
	for _, l := range log {
		if l == "b" {
			calls++
		}
	}
	nerr := 0
	if ea, ok := res["errors"].([]interface{}); ok {
		nerr = len(ea)
	}
	o.Count("kind=" + []string{"field", "inline-cond", "inline", "spread"}[kind])
	o.Count(fmt.Sprintf("depth=%d", depth))
	o.Count(fmt.Sprintf("ndirs=%d", len(dirs)))
	o.Count("class=" + class)
	if present {
		o.Count("present")
	} else {
		o.Count("absent")
	}
	names := []string{}
	for _, d := range dirs {
		names = append(names, d.name+":"+c09SrcNames[d.src])
	}
	o.Emit(Case{
		Term:       N("c09", LS(dt), LS(vt)),
		Obs:        N("obs", B(present), I(int64(calls)), I(int64(nerr))),
		Meta:       map[string]interface{}{"doc": doc, "vars": vars, "dirs": names, "kind": kind, "depth": depth},
		Key:        fmt.Sprintf("%v|%d|%d", names, kind, depth),
		Nontrivial: len(dirs) > 0,
	})
}

func init() {
	props["C09"] = func(o *Out, rng *Rng, tier string) {
		// exhaustive table: every source for @skip × every source for @include, both orders,
		// every selection kind, depth 0..2
		for s := sAbsent; s <= sDefF; s++ {
			for i := sAbsent; i <= sDefF; i++ {
				for order := 0; order < 2; order++ {
					var dirs []c09Dir
					if s != sAbsent {
						dirs = append(dirs, c09Dir{"skip", s})
					}
					if i != sAbsent {
						dirs = append(dirs, c09Dir{"include", i})
					}
					if order == 1 {
						if len(dirs) < 2 {
							continue
						}
						dirs[0], dirs[1] = dirs[1], dirs[0]
					}
					for kind := 0; kind < 4; kind++ {
						for depth := 0; depth < 3; depth++ {
							c09Extra = ""
							c09Run(o, dirs, kind, depth, "table")
							if depth == 0 {
								c09Extra = c09Namesakes
								c09Run(o, dirs, kind, depth, "table, types named like the directives")
								c09Extra = ""
							}
						}
					}
				}
			}
		}
		// random longer lists, repeated directives, bad variables
		n := 1500
		if tier == "thorough" {
			n = 60000
		}
		for k := 0; k < n; k++ {
			nd := 1 + rng.Intn(5)
			var dirs []c09Dir
			for j := 0; j < nd; j++ {
				name := "skip"
				if rng.Bool() {
					name = "include"
				}
				dirs = append(dirs, c09Dir{name, c09Src(1 + rng.Intn(7))})
			}
			if rng.Chance(25) {
				c09Extra = c09Namesakes
			}
			c09Run(o, dirs, rng.Intn(4), rng.Intn(3), "random")
			c09Extra = ""
		}
		// directives at any depth of generated documents (also under list-valued fields), the document parsed
		// once and resolved three times with the supplied conditions flipped between the calls
		for k := 0; k < n/6; k++ {
			r := rng.Fork()
			walkReuseCase(o, r, docOpts{collisions: false, abstract: false, maxDepth: 3}, 3)
		}
	}
}
