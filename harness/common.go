package main

import (
	"fmt"

	"github.com/uhn/ggql/pkg/ggql"
)

// safeResolve runs ResolveString with recover: a panic is an observation, not the end of the run.
func safeResolve(root *ggql.Root, doc, op string, vars map[string]interface{}) (res map[string]interface{}) {
	defer func() {
		if r := recover(); r != nil {
			res = map[string]interface{}{"panic": fmt.Sprint(r)}
		}
	}()
	return root.ResolveString(doc, op, vars)
}

// safeResolveExe resolves an already parsed executable and assembles the envelope as ResolveReader does.
func safeResolveExe(root *ggql.Root, exe *ggql.Executable, op string, vars map[string]interface{}) (res map[string]interface{}) {
	defer func() {
		if r := recover(); r != nil {
			res = map[string]interface{}{"panic": fmt.Sprint(r)}
		}
	}()
	result, err := root.ResolveExecutable(exe, op, vars)
	if result == nil {
		result = map[string]interface{}{"data": nil}
	}
	if err != nil {
		result["errors"] = ggql.FormErrorsResult(err)
	}
	return result
}
