package main

import (
	"fmt"
	"reflect"
	"strings"

	"github.com/uhn/ggql/pkg/ggql"
)

// ---- C08 (reflection): histories of values reaching object / union / interface positions of one cold root ----
//
// Five object types over five Go struct types: three bound by name (the Go type is called like the GraphQL
// type), two bound by `@go(type: …)` whose Go type names are a suffix of one another (ItemC08 / LineItemC08).
// Every request reaches exactly one position with exactly one value, so the order in which the lazy bindings
// (Object.meta) are made is the order of the requests; the Lean binding model is run on the same history.

type ItemC08 struct{ F0 string }
type LineItemC08 struct{ F0 string }
type B0 struct{ F0 string }
type B1 struct{ F0 string }
type B2 struct{ F0 string }

type c08Q struct {
	UB0, UB1, UB2, UItem, ULine interface{}
	NB0, NB1, NB2, NItem, NLine interface{}
	OB0, OB1, OB2, OItem, OLine interface{}
}

type c08Top struct{ Query *c08Q }

var c08Objs = []struct{ gql, goDir, suffix string }{
	{"B0", "", "B0"}, {"B1", "", "B1"}, {"B2", "", "B2"}, {"Item", "ItemC08", "Item"}, {"LineItem", "LineItemC08", "Line"},
}

func c08Value(suffix string) interface{} {
	switch suffix {
	case "B0":
		return &B0{F0: "B0"}
	case "B1":
		return &B1{F0: "B1"}
	case "B2":
		return &B2{F0: "B2"}
	case "Item":
		return &ItemC08{F0: "ItemC08"}
	}
	return &LineItemC08{F0: "LineItemC08"}
}

func c08Binding(o *Out, r *Rng) {
	// union member order and @go form vary per case
	perm := []int{0, 1, 2, 3, 4}
	for i := range perm {
		j := i + r.Intn(len(perm)-i)
		perm[i], perm[j] = perm[j], perm[i]
	}
	nm := 2 + r.Intn(4)
	var members []string
	for _, p := range perm[:nm] {
		members = append(members, c08Objs[p].gql)
	}
	goForm := r.Intn(3) // name | pkg.name | full path
	var sdl strings.Builder
	sdl.WriteString("interface Named { f0: String }\nunion U = " + strings.Join(members, " | ") + "\n")
	var objTerms []T
	var order []string
	for _, ob := range c08Objs {
		dir := ""
		dt := A("none")
		if ob.goDir != "" {
			bt := reflect.TypeOf(c08Value(ob.suffix)).Elem()
			arg := ob.goDir
			switch goForm {
			case 1:
				arg = bt.String()
			case 2:
				arg = bt.PkgPath() + "." + bt.Name()
			}
			dir = fmt.Sprintf(" @go(type: %q)", arg)
			dt = S(arg)
		}
		fmt.Fprintf(&sdl, "type %s implements Named%s { f0: String }\n", ob.gql, dir)
		objTerms = append(objTerms, N("obj", S(ob.gql), dt))
	}
	sdl.WriteString("type Query {")
	for _, ob := range c08Objs {
		fmt.Fprintf(&sdl, " u%s: U n%s: Named o%s: %s", ob.suffix, ob.suffix, ob.suffix, ob.gql)
	}
	sdl.WriteString(" }\n")
	q := &c08Q{}
	qv := reflect.ValueOf(q).Elem()
	for _, ob := range c08Objs {
		v := c08Value(ob.suffix)
		qv.FieldByName("U" + ob.suffix).Set(reflect.ValueOf(v))
		qv.FieldByName("N" + ob.suffix).Set(reflect.ValueOf(v))
		qv.FieldByName("O" + ob.suffix).Set(reflect.ValueOf(v))
	}
	root := ggql.NewRoot(&c08Top{Query: q})
	if err := root.ParseString(sdl.String()); err != nil {
		panic(fmt.Sprintf("c08 schema: %v\n%s", err, sdl.String()))
	}
	for _, t := range root.Types() {
		if _, ok := t.(*ggql.Object); ok {
			order = append(order, t.Name())
		}
	}
	var ordT []T
	for _, n := range order {
		ordT = append(ordT, S(n))
	}
	var memT []T
	for _, m := range members {
		memT = append(memT, S(m))
	}
	n := 1 + r.Intn(7)
	var evs, outs []T
	var hist []string
	for k := 0; k < n; k++ {
		ob := Pick(r, c08Objs[:])
		bt := reflect.TypeOf(c08Value(ob.suffix)).Elem()
		gt := N("go", S(bt.PkgPath()+"."+bt.Name()), S(bt.String()), S(bt.Name()))
		var doc, field string
		var pos T
		switch r.Intn(3) {
		case 0:
			field = "u" + ob.suffix
			// fragments for a random subset of the object types (possibly none, possibly not the value's own type: then
			// no field of the value is resolved and only the union dispatch has bound it)
			var fr []string
			for _, x := range c08Objs {
				if r.Chance(45) {
					fr = append(fr, "... on "+x.gql+" { f0 }")
				}
			}
			doc = "{ " + field + " { __typename " + strings.Join(fr, " ") + " } }"
			pos = N("u", LS(memT))
		case 1:
			field = "n" + ob.suffix
			doc = "{ " + field + " { f0 } }"
			pos = A("i")
		default:
			field = "o" + ob.suffix
			doc = "{ " + field + " { f0 } }"
			pos = N("o", S(ob.gql))
		}
		// the value reaches the position as a pointer or as a plain struct value: one Go type, one object type
		form := "pointer"
		{
			v := c08Value(ob.suffix)
			rv := reflect.ValueOf(v)
			if r.Chance(35) {
				rv = rv.Elem()
				form = "value"
			}
			qv.FieldByName(strings.ToUpper(field[:1]) + ob.suffix).Set(rv)
		}
		o.Count("binding-value-form=" + form)
		res := safeResolve(root, doc, "", nil)
		hist = append(hist, doc+" ("+form+") -> "+fmt.Sprint(res))
		evs = append(evs, N("ev", pos, gt))
		out := A("other")
		data, _ := res["data"].(map[string]interface{})
		val, has := data[field]
		nerr := 0
		if ea, ok := res["errors"].([]interface{}); ok {
			nerr = len(ea)
		}
		vm, _ := val.(map[string]interface{})
		switch {
		case pos.Tag == "u" && has && val == nil && nerr > 0:
			out = A("err")
		case pos.Tag == "u" && vm != nil && len(vm) == 0:
			out = A("empty")
		case pos.Tag == "u" && vm != nil:
			tn, _ := vm["__typename"].(string)
			if f0, hasF0 := vm["f0"]; (!hasF0 || f0 == bt.Name()) && nerr == 0 {
				out = N("as", S(tn))
			} else {
				out = N("other", S(fmt.Sprint(vm)))
			}
		case vm != nil && vm["f0"] == nil && nerr == 0:
			out = A("unbound")
		case vm != nil && vm["f0"] == bt.Name() && nerr == 0:
			out = A("bound")
		default:
			out = N("other", S(fmt.Sprint(res)))
		}
		outs = append(outs, out)
	}
	o.Count("class=binding-history")
	o.Count(fmt.Sprintf("history-length=%d", n))
	o.Emit(Case{Term: N("c08b", LS(objTerms), LS(ordT), LS(evs)), Obs: LS(outs),
		Meta: map[string]interface{}{"schema": sdl.String(), "history": hist}, Nontrivial: true})
}

// ---- a Go type that is bound after it was first seen -----------------------------------------------------
//
// C08 speaks of the Go type of a returned object being bound to an object type "by registration, by the @go
// directive or by name".  The binding can come after the first request that returned such an object (RegisterType
// called later, a later load that brings the type the Go type binds to by name): from then on the object is
// resolved as its concrete type — whatever was worked out, and kept, while it could not be determined.  Fixed
// table, every run; the expected answer is the one of a root that was bound before its first request.

type HoundC08 struct{ F0 string }
type LateC08 struct{ F0 string }

type c08LateQ struct {
	Pet  interface{}
	Pets []interface{}
}
type c08LateTop struct{ Query *c08LateQ }

func c08Late(o *Out) {
	const base = "interface Named { f0: String }\nunion Furry = Dog\ntype Dog implements Named { f0: String }\ntype Query { pet: Named pets: [Named] }\n"
	const doc = "{ pet { __typename f0 ... on Dog { d: f0 } ... on Furry { __typename } ... on LateC08 { l: f0 } } pets { __typename f0 } }"
	type step func(root *ggql.Root)
	register := func(root *ggql.Root) {
		if err := root.RegisterType(&HoundC08{}, "Dog"); err != nil {
			panic(err)
		}
	}
	load := func(root *ggql.Root) {
		if err := root.ParseString("type LateC08 implements Named { f0: String }"); err != nil {
			panic(err)
		}
	}
	for _, e := range []struct {
		name string
		val  func() interface{}
		bind step
		sdl  string
	}{
		{"RegisterType after the first request", func() interface{} { return &HoundC08{F0: "rex"} }, register, base},
		{"by-name object type loaded after the first request", func() interface{} { return &LateC08{F0: "new"} }, load,
			strings.Replace(base, "... on LateC08 { l: f0 }", "", 1)},
	} {
		mk := func() *ggql.Root {
			root := ggql.NewRoot(&c08LateTop{Query: &c08LateQ{Pet: e.val(), Pets: []interface{}{e.val(), e.val()}}})
			if err := root.ParseString(e.sdl); err != nil {
				panic(err)
			}
			return root
		}
		d := doc
		if strings.Contains(e.name, "RegisterType") {
			d = strings.Replace(doc, " ... on LateC08 { l: f0 }", "", 1)
		}
		// reference: bound before the first request
		ref := mk()
		e.bind(ref)
		want := canon(safeResolve(ref, d, "", nil))
		// history: a request (or three) while the type can not be determined, then the binding, then the request
		root := mk()
		early := d
		if !strings.Contains(e.name, "RegisterType") {
			early = "{ pet { __typename f0 } pets { __typename f0 } }" // LateC08 is not a type yet
		}
		first := canon(safeResolve(root, early, "", nil))
		_ = canon(safeResolve(root, early, "", nil))
		e.bind(root)
		got := canon(safeResolve(root, d, "", nil))
		o.Count("late-binding histories")
		o.Emit(Case{Term: N("c08l", S(e.name)), Obs: N("obs", B(got == want), B(strings.Contains(want, `"__typename":"Named"`))),
			Meta: map[string]interface{}{"history": e.name, "before_binding": first, "after_binding": got, "bound_first": want}, Nontrivial: true})
	}
}
