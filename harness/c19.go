package main

import (
	"encoding/json"
	"fmt"
	"sort"
	"strings"

	"github.com/uhn/ggql/pkg/ggql"
)

// ---- C19: subscription registry, sequential histories ------------------------------------------

const c19Schema = `
type Query { a: Int ev: Event }
type Subscription { listen(topic: String): Event }
type Event { v(x: Int): Int w: String n: Event }
`

type c19World struct {
	nextID int
	log    []string // "send <id>", "clean <id>"
	msgs   map[int][]interface{}
	fail   map[int]bool
	cur    *c19Event
	onCreate func(id int)
}

type c19Sub struct {
	w     *c19World
	id    int
	topic string
}

func (s *c19Sub) Send(v interface{}) error {
	s.w.log = append(s.w.log, fmt.Sprintf("send %d", s.id))
	s.w.msgs[s.id] = append(s.w.msgs[s.id], v)
	if s.w.fail[s.id] {
		return fmt.Errorf("delivery to %d failed", s.id)
	}
	return nil
}
func (s *c19Sub) Match(ev string) bool { return s.topic == "" || s.topic == ev }
func (s *c19Sub) Unsubscribe()         { s.w.log = append(s.w.log, fmt.Sprintf("clean %d", s.id)) }

type c19Event struct {
	base  int
	word  string
	depth int
}

func (e *c19Event) Resolve(f *ggql.Field, args map[string]interface{}) (interface{}, error) {
	switch f.Name {
	case "v":
		x := 0
		switch t := args["x"].(type) {
		case int32:
			x = int(t)
		case int64:
			x = int(t)
		case int:
			x = t
		}
		return e.base + x, nil
	case "w":
		return e.word, nil
	case "n":
		if e.depth <= 0 {
			return nil, nil
		}
		return &c19Event{base: e.base + 100, word: e.word + "'", depth: e.depth - 1}, nil
	}
	return nil, nil
}

type c19Root struct{ w *c19World }

func (r *c19Root) Resolve(f *ggql.Field, args map[string]interface{}) (interface{}, error) {
	switch f.Name {
	case "query", "subscription":
		return r, nil
	case "a":
		return 1, nil
	case "ev":
		return r.w.cur, nil
	case "listen":
		topic, _ := args["topic"].(string)
		s := &c19Sub{w: r.w, id: r.w.nextID, topic: topic}
		if r.w.onCreate != nil {
			r.w.onCreate(s.id)
		}
		r.w.nextID++
		return ggql.NewSubscription(s, f, args), nil
	}
	return nil, nil
}

type c19Sel struct {
	text    string
	usesVar bool
}

var c19Sels = []c19Sel{
	{"{ v }", false},
	{"{ w v }", false},
	{"{ w n { v w } }", false},
	{"{ x: v w2: w n { n { w } } }", false},
	{"{ v(x: 5) }", false},
	{"{ v(x: $k) w }", true},
}

func canon(v interface{}) string {
	b, _ := json.Marshal(v) // map keys sorted by encoding/json
	return string(b)
}

func c19History(o *Out, rng *Rng, maxLen int) {
	w := &c19World{msgs: map[int][]interface{}{}, fail: map[int]bool{}}
	root := ggql.NewRoot(&c19Root{w: w})
	if err := root.ParseString(c19Schema); err != nil {
		panic(err)
	}
	topics := []string{"", "e1", "e2", "e3"}
	events := []string{"e1", "e2", "e3"}
	n := 1 + rng.Intn(maxLen)
	var ops []T
	var obs []T
	var human []string
	selOf := map[int]c19Sel{}
	varOf := map[int]int{}
	npub, nfail, nunsub, nsub := 0, 0, 0, 0
	nmulti := 0
	for i := 0; i < n; i++ {
		w.log = nil
		w.fail = map[int]bool{}
		c := rng.Intn(10)
		switch {
		case c < 4: // subscribe: one request, one to three subscription fields, some reached through fragments
			nf := 1
			if rng.Chance(35) {
				nf = 2 + rng.Intn(2)
			}
			id0 := w.nextID
			vars := map[string]interface{}{}
			usesVar := false
			kv := 1 + rng.Intn(50)
			var body, frags strings.Builder
			type reg struct {
				pat T
				sel c19Sel
			}
			var regs []reg
			for j := 0; j < nf; j++ {
				nsub++
				topic := Pick(rng, topics)
				sel := Pick(rng, c19Sels)
				arg := ""
				pat := N("any")
				if topic != "" {
					arg = fmt.Sprintf("(topic: %q)", topic)
					pat = N("exact", S(topic))
				}
				if sel.usesVar {
					usesVar = true
				}
				fld := fmt.Sprintf("s%d: listen%s %s", j, arg, sel.text)
				if nf == 1 && rng.Chance(60) {
					fld = fmt.Sprintf("listen%s %s", arg, sel.text)
				}
				switch rng.Intn(6) {
				case 0:
					body.WriteString(" ... { " + fld + " }")
				case 1:
					body.WriteString(" ... on Subscription { " + fld + " }")
				case 2:
					fmt.Fprintf(&body, " ...F%d", j)
					fmt.Fprintf(&frags, " fragment F%d on Subscription { %s }", j, fld)
				default:
					body.WriteString(" " + fld)
				}
				regs = append(regs, reg{pat, sel})
			}
			doc := "subscription {" + body.String() + " }" + frags.String()
			if usesVar {
				doc = "subscription S($k: Int) {" + body.String() + " }" + frags.String()
				vars["k"] = kv
			}
			res := safeResolve(root, doc, "", vars)
			okReg := w.nextID == id0+nf && res["errors"] == nil
			if nf > 1 {
				nmulti++
			}
			for j, rg := range regs {
				selOf[id0+j] = rg.sel
				varOf[id0+j] = kv
				ops = append(ops, N("sub", rg.pat, B(rg.sel.usesVar)))
				obs = append(obs, N("o", L(), L(), I(0), B(okReg)))
			}
			human = append(human, "subscribe "+doc)
		case c < 8: // publish
			npub++
			ev := Pick(rng, events)
			var fails []int
			for id := 0; id < w.nextID; id++ {
				if rng.Chance(25) {
					fails = append(fails, id)
					w.fail[id] = true
				}
			}
			if len(fails) > 0 {
				nfail++
			}
			event := &c19Event{base: rng.Intn(90), word: Pick(rng, []string{"a", "b\"c", "é"}), depth: 3}
			before := map[int]int{}
			for id, m := range w.msgs {
				before[id] = len(m)
			}
			cnt, err := func() (c int, e error) {
				defer func() {
					if r := recover(); r != nil {
						e = fmt.Errorf("panic: %v", r)
						c = -1
					}
				}()
				return root.AddEvent(ev, event)
			}()
			_ = err
			var del, cl []T
			msgsOK := true
			for _, l := range w.log {
				var id int
				if _, e := fmt.Sscanf(l, "send %d", &id); e == nil {
					del = append(del, I(int64(id)))
				} else if _, e := fmt.Sscanf(l, "clean %d", &id); e == nil {
					cl = append(cl, I(int64(id)))
				}
			}
			// message content: the subscriber's own selection set applied to the event
			ids := []int{}
			for id := range w.msgs {
				ids = append(ids, id)
			}
			sort.Ints(ids)
			var bad []T
			for _, id := range ids {
				for _, m := range w.msgs[id][before[id]:] {
					sel := selOf[id]
					w.cur = event
					var want map[string]interface{}
					if sel.usesVar {
						want = safeResolve(root, "query($k: Int){ ev "+sel.text+" }", "", map[string]interface{}{"k": varOf[id]})
					} else {
						want = safeResolve(root, "{ ev "+sel.text+" }", "", nil)
					}
					wd, _ := want["data"].(map[string]interface{})
					if canon(wd["ev"]) != canon(m) {
						msgsOK = false
						bad = append(bad, I(int64(id)))
					}
				}
			}
			_ = msgsOK
			var ft []T
			for _, f := range fails {
				ft = append(ft, I(int64(f)))
			}
			ops = append(ops, N("pub", S(ev), LS(ft)))
			obs = append(obs, N("o", LS(del), LS(cl), I(int64(cnt)), LS(bad)))
			human = append(human, fmt.Sprintf("publish %s fails=%v", ev, fails))
		default: // unsubscribe
			nunsub++
			ev := Pick(rng, events)
			cnt := root.Unsubscribe(ev)
			var cl []T
			for _, l := range w.log {
				var id int
				if _, e := fmt.Sscanf(l, "clean %d", &id); e == nil {
					cl = append(cl, I(int64(id)))
				}
			}
			ops = append(ops, N("unsub", S(ev)))
			obs = append(obs, N("o", L(), LS(cl), I(int64(cnt)), L()))
			human = append(human, "unsubscribe "+ev)
		}
	}
	o.Count(fmt.Sprintf("len<=%d", ((n+9)/10)*10))
	o.stats["ops.subscribe"] += nsub
	o.stats["ops.subscribe requests with several fields"] += nmulti
	o.stats["ops.publish"] += npub
	o.stats["ops.publish_with_failures"] += nfail
	o.stats["ops.unsubscribe"] += nunsub
	o.Emit(Case{
		Term:       N("c19", LS(ops)),
		Obs:        LS(obs),
		Meta:       map[string]interface{}{"history": strings.Join(human, " ; ")},
		Nontrivial: npub > 0 && nsub > 0,
	})
}

func init() {
	props["C19"] = func(o *Out, rng *Rng, tier string) {
		n, maxLen := 400, 40
		if tier == "thorough" {
			n, maxLen = 6000, 400
		}
		for i := 0; i < n; i++ {
			c19History(o, rng.Fork(), maxLen)
		}
	}
}
