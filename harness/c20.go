package main

import (
	"fmt"
	"strings"
	"sync"
	"time"

	"github.com/uhn/ggql/pkg/ggql"
)

// ---- C20: registry under concurrency — scheduled block interleavings ----------------------------
//
// Each harness thread runs a list of calls on one real root.  The verif yield hooks stop a thread
// immediately before every acquisition of the registry lock; the scheduler lets exactly one thread
// run at a time, from one yield point to the next, so the execution is a chosen interleaving of the
// four critical sections.  The same block list is sent to the Lean model.

type c20Call struct {
	kind  string // sub | unsub | pub
	topic string // sub: "" = wildcard
	ev    string
	fails []int
}

type c20Sched struct {
	mu      sync.Mutex
	cur     int              // thread currently allowed to run
	wake    []chan struct{}  // per thread: proceed
	parked  chan c20Park     // thread -> scheduler: I am at a yield point / finished
	w       *c19World
	blockLog *[]string
}

type c20Park struct {
	thread int
	site   string // yield site, or "done"
}

func c20Run(o *Out, rng *Rng, nthreads, ncalls int, exhaustiveSchedule []int, label string) {
	w := &c19World{msgs: map[int][]interface{}{}, fail: map[int]bool{}}
	root := ggql.NewRoot(&c19Root{w: w})
	if err := root.ParseString(c19Schema); err != nil {
		panic(err)
	}
	events := []string{"e1", "e2"}
	topics := []string{"", "e1", "e2"}
	// thread programmes
	progs := make([][]c20Call, nthreads)
	for t := range progs {
		n := 1 + rng.Intn(ncalls)
		for i := 0; i < n; i++ {
			switch c := rng.Intn(10); {
			case c < 3:
				progs[t] = append(progs[t], c20Call{kind: "sub", topic: Pick(rng, topics)})
			case c < 8:
				var fails []int
				for id := 0; id < 8; id++ {
					if rng.Chance(35) {
						fails = append(fails, id)
					}
				}
				progs[t] = append(progs[t], c20Call{kind: "pub", ev: Pick(rng, events), fails: fails})
			default:
				progs[t] = append(progs[t], c20Call{kind: "unsub", ev: Pick(rng, events)})
			}
		}
	}
	// a couple of subscribers registered up front so early publishes have something to do
	pre := 1 + rng.Intn(3)
	var blocks []T
	var obs []T
	var human []string
	for i := 0; i < pre; i++ {
		topic := Pick(rng, topics)
		arg := ""
		if topic != "" {
			arg = fmt.Sprintf("(topic: %q)", topic)
		}
		safeResolve(root, "subscription { listen"+arg+" { v } }", "", nil)
		pat := N("any")
		if topic != "" {
			pat = N("exact", S(topic))
		}
		blocks = append(blocks, N("sub", pat))
		obs = append(obs, N("o", L(), L(), I(0)))
		human = append(human, "pre: subscribe "+topic)
	}

	// harness ids are issued when `listen` resolves; the model issues ids when the subscribe block
	// appends.  toModel translates (registration order = order of subscribe blocks).
	toModel := map[int]int{}
	for i := 0; i < pre; i++ {
		toModel[i] = i
	}
	nextModel := pre
	created := map[int]int{} // thread -> harness id created by its current subscribe call
	sched := &c20Sched{wake: make([]chan struct{}, nthreads), parked: make(chan c20Park), w: w}
	for i := range sched.wake {
		sched.wake[i] = make(chan struct{})
	}
	ggql.VerifYield = func(site string) {
		switch site {
		case "subscribe", "unsubscribe", "deliver", "reap":
			t := sched.cur
			sched.parked <- c20Park{t, site}
			<-sched.wake[t]
		}
	}
	defer func() { ggql.VerifYield = nil }()
	w.onCreate = func(id int) { created[sched.cur] = id }

	type callState struct {
		idx   int // current call index
		pubK  int // publish call number (model's k) of the call in progress
		count int
	}
	counts := make([][]int, nthreads)
	states := make([]callState, nthreads)
	pubCounter := 0
	var wg sync.WaitGroup
	for t := 0; t < nthreads; t++ {
		wg.Add(1)
		go func(t int) {
			defer wg.Done()
			<-sched.wake[t] // wait to be started
			for _, c := range progs[t] {
				switch c.kind {
				case "sub":
					arg := ""
					if c.topic != "" {
						arg = fmt.Sprintf("(topic: %q)", c.topic)
					}
					safeResolve(root, "subscription { listen"+arg+" { v } }", "", nil)
					counts[t] = append(counts[t], 0)
				case "unsub":
					counts[t] = append(counts[t], root.Unsubscribe(c.ev))
				case "pub":
					n, _ := root.AddEvent(c.ev, &c19Event{base: 1, word: "w", depth: 1})
					counts[t] = append(counts[t], n)
				}
			}
			sched.parked <- c20Park{t, "done"}
		}(t)
	}
	// start every thread up to its first yield point, one at a time
	at := make([]string, nthreads) // site each thread is parked at ("" = done)
	for t := 0; t < nthreads; t++ {
		sched.cur = t
		sched.wake[t] <- struct{}{}
		p := c20Wait(sched)
		at[p.thread] = p.site
		if p.site == "done" {
			at[p.thread] = ""
		}
	}
	// run the schedule
	type blockRec struct {
		thread, call int
		site         string
		k            int
		logFrom      int
	}
	var recs []blockRec
	step := 0
	for {
		var live []int
		for t := 0; t < nthreads; t++ {
			if at[t] != "" {
				live = append(live, t)
			}
		}
		if len(live) == 0 {
			break
		}
		var t int
		if step < len(exhaustiveSchedule) {
			t = live[exhaustiveSchedule[step]%len(live)]
		} else {
			t = Pick(rng, live)
		}
		step++
		st := &states[t]
		call := progs[t][st.idx]
		site := at[t]
		k := -1
		switch site {
		case "deliver":
			st.pubK = pubCounter
			pubCounter++
			k = st.pubK
			w.fail = map[int]bool{}
			for _, f := range call.fails {
				w.fail[f] = true
			}
		case "reap":
			k = st.pubK
		}
		if site == "subscribe" {
			toModel[created[t]] = nextModel
			nextModel++
		}
		logFrom := len(w.log)
		recs = append(recs, blockRec{t, st.idx, site, k, logFrom})
		sched.cur = t
		sched.wake[t] <- struct{}{}
		p := c20Wait(sched)
		// the thread ran one block and is parked again (or done)
		var del, cl []T
		for _, l := range w.log[logFrom:] {
			var id int
			if _, e := fmt.Sscanf(l, "send %d", &id); e == nil {
				del = append(del, I(int64(toModel[id])))
			} else if _, e := fmt.Sscanf(l, "clean %d", &id); e == nil {
				cl = append(cl, I(int64(toModel[id])))
			}
		}
		// has the call finished?  (the thread moved on to its next call or is done)
		finished := site != "deliver"
		cnt := 0
		if finished && st.idx < len(counts[t]) {
			cnt = counts[t][st.idx]
		}
		switch site {
		case "subscribe":
			pat := N("any")
			if call.topic != "" {
				pat = N("exact", S(call.topic))
			}
			blocks = append(blocks, N("sub", pat))
			obs = append(obs, N("o", LS(del), LS(cl), I(0)))
		case "unsubscribe":
			blocks = append(blocks, N("unsub", S(call.ev)))
			obs = append(obs, N("o", LS(del), LS(cl), I(int64(cnt))))
		case "deliver":
			var ft []T
			for _, f := range call.fails {
				if m, ok := toModel[f]; ok {
					ft = append(ft, I(int64(m)))
				}
			}
			blocks = append(blocks, N("deliver", I(int64(k)), S(call.ev), LS(ft)))
			obs = append(obs, N("o", LS(del), LS(cl), I(int64(len(del)))))
		case "reap":
			blocks = append(blocks, N("reap", I(int64(k))))
			obs = append(obs, N("o", LS(del), LS(cl), I(int64(cnt))))
		}
		human = append(human, fmt.Sprintf("T%d:%s", t, site))
		if finished {
			st.idx++
		}
		at[p.thread] = p.site
		if p.site == "done" {
			at[p.thread] = ""
		}
	}
	wg.Wait()
	o.Count("threads=" + fmt.Sprint(nthreads))
	o.Count(fmt.Sprintf("blocks<=%d", ((len(blocks)+4)/5)*5))
	o.Count("class=" + label)
	o.Emit(Case{
		Term:       N("c20", LS(blocks)),
		Obs:        LS(obs),
		Meta:       map[string]interface{}{"schedule": strings.Join(human, " "), "threads": nthreads},
		Nontrivial: nthreads > 1 && len(blocks) > pre+2,
	})
}

func c20Wait(s *c20Sched) c20Park {
	select {
	case p := <-s.parked:
		return p
	case <-time.After(20 * time.Second):
		panic("C20 scheduler: a thread neither reached a yield point nor finished within 20 s (deadlock?)")
	}
}

func init() {
	props["C20"] = func(o *Out, rng *Rng, tier string) {
		n := 600
		if tier == "thorough" {
			n = 20000
		}
		for i := 0; i < n; i++ {
			r := rng.Fork()
			c20Run(o, r, 2+r.Intn(3), 1+r.Intn(3), nil, "random")
		}
	}
}
