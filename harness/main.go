// Command harness is the correspondence harness of /verif (DESIGN.md §4.2).  For one property it
// generates cases from a single PRNG seed, runs the real ggql code in-process on each, and writes
//
//	<PROP> <case-term> <impl-observation-term>
//
// lines for the Lean driver, a parallel .meta file (one JSON object per case: human-readable
// replay information) and a .stats JSON object (input distribution) for the evidence file.
package main

import (
	"bufio"
	"encoding/json"
	"flag"
	"fmt"
	"os"
	"sort"
)

type Case struct {
	Term       T
	Obs        T
	Meta       map[string]interface{}
	Key        string // distinctness key for distinct_nontrivial (defaults to Term)
	Nontrivial bool
}

type Out struct {
	prop   string
	w      *bufio.Writer
	meta   *bufio.Writer
	n      int
	only   int
	stats  map[string]int
	dist   map[string]bool
	sample []map[string]interface{}
}

func (o *Out) Emit(c Case) {
	idx := o.n
	o.n++
	if o.only >= 0 && idx != o.only {
		return
	}
	fmt.Fprintf(o.w, "%s %s %s\n", o.prop, c.Term.String(), c.Obs.String())
	if c.Meta == nil {
		c.Meta = map[string]interface{}{}
	}
	c.Meta["index"] = idx
	c.Meta["impl"] = c.Obs.String()
	mb, _ := json.Marshal(c.Meta)
	o.meta.Write(mb)
	o.meta.WriteByte('\n')
	// flushed per case: if the implementation kills this process (fatal error), the number of complete lines
	// tells bin/check which case did it
	o.w.Flush()
	o.meta.Flush()
	if c.Nontrivial {
		k := c.Key
		if k == "" {
			k = c.Term.String()
		}
		o.dist[k] = true
	}
	if len(o.sample) < 4 && (idx%97 == 0 || o.only >= 0) {
		sm := map[string]interface{}{}
		for k, v := range c.Meta {
			if s, ok := v.(string); ok && len(s) > 600 {
				v = s[:600] + "…"
			}
			sm[k] = v
		}
		o.sample = append(o.sample, sm)
	}
}

func (o *Out) Count(k string)         { o.stats[k]++ }
func (o *Out) CountN(k string, n int) { o.stats[k] += n }

type propFn func(o *Out, rng *Rng, tier string)

var props = map[string]propFn{}

func main() {
	if len(os.Args) < 2 {
		fmt.Fprintln(os.Stderr, "usage: harness <PROP> [-seed N] [-tier quick|thorough] [-out file] [-only idx]")
		os.Exit(2)
	}
	prop := os.Args[1]
	if prop == "c03worker" {
		c03Worker()
		return
	}
	fs := flag.NewFlagSet("harness", flag.ExitOnError)
	seed := fs.Uint64("seed", 1, "PRNG seed")
	tier := fs.String("tier", "quick", "quick|thorough")
	out := fs.String("out", "", "output file prefix")
	only := fs.Int("only", -1, "emit only the case with this index (replay)")
	_ = fs.Parse(os.Args[2:])
	fn, ok := props[prop]
	if !ok {
		names := []string{}
		for k := range props {
			names = append(names, k)
		}
		sort.Strings(names)
		fmt.Fprintln(os.Stderr, "unknown property", prop, "known:", names)
		os.Exit(2)
	}
	f, err := os.Create(*out + ".cases")
	if err != nil {
		panic(err)
	}
	mf, err := os.Create(*out + ".meta")
	if err != nil {
		panic(err)
	}
	o := &Out{prop: prop, w: bufio.NewWriterSize(f, 1<<20), meta: bufio.NewWriterSize(mf, 1<<20), only: *only,
		stats: map[string]int{}, dist: map[string]bool{}}
	fn(o, NewRng(*seed), *tier)
	o.w.Flush()
	o.meta.Flush()
	f.Close()
	mf.Close()
	st := map[string]interface{}{"cases": o.n, "distinct_nontrivial": len(o.dist), "distribution": o.stats, "samples": o.sample}
	sb, _ := json.MarshalIndent(st, "", " ")
	_ = os.WriteFile(*out+".stats", sb, 0o644)
}
