package main

import (
	"bufio"
	"bytes"
	"encoding/hex"
	"encoding/json"
	"errors"
	"fmt"
	"io"
	"os"
	"os/exec"
	"regexp"
	"runtime"
	"runtime/debug"
	"sort"
	"strconv"
	"strings"
	"sync"
	"syscall"
	"time"

	"github.com/uhn/ggql/pkg/ggql"
)

// ---- C03: nothing crashes or hangs the library --------------------------------------------------------
//
// Every real call runs in a worker subprocess (this binary, `c03worker`) behind a watchdog: a panic,
// a fatal stack overflow or a hang is an observation (`(panic …)`, `hang`), not the end of the run.
//
//   c03p  scanner cases: the same bytes through the real parseSDL / parseExe / ParseValue (verif hook:
//         the scanners alone) and through the Lean control-flow models; compared on outcome class,
//         error position and the definitions / operations read.
//   c03r  whole entry points on adversarial but mostly well-formed inputs (load + print + introspect,
//         resolve under the three strategies with arbitrary variables): returned or crashed, with the
//         crash classified by where it happened.

var errFault = errors.New("verif: reader fault")

// c03Reader delivers bytes one Read at a time and then ends as `tail` says.
type c03Reader struct {
	b    []byte
	tail string
}

func (f *c03Reader) Read(p []byte) (int, error) {
	if len(p) == 0 {
		return 0, nil
	}
	if len(f.b) == 0 {
		if f.tail == "fault" {
			return 0, errFault
		}
		return 0, io.EOF
	}
	p[0] = f.b[0]
	f.b = f.b[1:]
	if len(f.b) == 0 && f.tail == "eofLast" {
		return 1, io.EOF
	}
	return 1, nil
}

var atRe = regexp.MustCompile(` at (-?\d+):(-?\d+)$`)

func c03ErrTerm(err error) T {
	if errors.Is(err, errFault) {
		return N("err", A("io"), I(0), I(0))
	}
	var ge *ggql.Error
	if errors.As(err, &ge) {
		return N("err", A("parse"), I(int64(ge.Line)), I(int64(ge.Column)))
	}
	msg := err.Error()
	if m := atRe.FindStringSubmatch(msg); m != nil {
		l, _ := strconv.Atoi(m[1])
		c, _ := strconv.Atoi(m[2])
		return N("err", A("parse"), I(int64(l)), I(int64(c)))
	}
	if errors.Is(err, ggql.ErrDuplicate) || strings.Contains(msg, "duplicate") {
		return N("err", A("dup"), I(0), I(0))
	}
	return N("err", A("other"), S(msg))
}

// c03RunParse is executed inside the worker.
func c03RunParse(kind, tail string, data []byte) T {
	rd := &c03Reader{b: data, tail: tail}
	switch kind {
	case "sdl":
		root := ggql.NewRoot(nil)
		kinds, names, ext, err := ggql.VerifParseSDL(root, rd)
		if err != nil {
			return c03ErrTerm(err)
		}
		var ds []T
		for i := range kinds {
			ds = append(ds, N("d", A(kinds[i]), S(names[i]), B(ext[i])))
		}
		return N("ok", LS(ds))
	case "exe":
		root := ggql.NewRoot(nil)
		ops, err := ggql.VerifParseExe(root, rd)
		if err != nil {
			return c03ErrTerm(err)
		}
		hs := []string{}
		for _, o := range ops {
			hs = append(hs, hex.EncodeToString([]byte(o)))
		}
		sort.Strings(hs)
		var ts []T
		for _, h := range hs {
			ts = append(ts, A("x"+h))
		}
		return N("ok", LS(ts))
	case "val":
		_, err := ggql.ParseValue(rd)
		if err != nil {
			return c03ErrTerm(err)
		}
		return N("ok", A("v"))
	}
	return A("bad-kind")
}

// ---- entry-point cases ----------------------------------------------------------------------------------

const c03Schema = `
type Query { a(x: Int, y: String): Int  b: Int  s(in: In, l: [Int!], e: Col): String  o: Obj  os: [Obj]  u: [Un]  n(req: Int!): Int }
type Mutation { m(x: Int): Int }
type Obj implements Named { name: String  next: Obj  kids: [Obj]  two(p: Int, q: Boolean): Int  says(loud: Boolean, times: Int): String }
type Other implements Named { name: String  w: Int  says(loud: Boolean, times: Int): String }
interface Named { name: String }
union Un = Obj | Other
enum Col { RED GREEN }
input In { p: Int  q: [String]  r: In  must: Int! = 1 }
`

// reflection strategy types
type c03Q struct {
	B  int
	O  *c03Obj
	Os []*c03Obj
}

func (q *c03Q) A(x int32, y string) int                                       { return int(x) + len(y) }
func (q *c03Q) S(in map[string]interface{}, l []interface{}, e string) string { return "s" }
func (q *c03Q) U() []interface{}                                              { return []interface{}{q.O, &c03Other{Name: "t", W: 1}} }
func (q *c03Q) N(req int32) int                                               { return int(req) }

type c03Obj struct {
	Name string
	Next *c03Obj
	Kids []*c03Obj
}

func (o *c03Obj) Two(p int32, q bool) int              { return int(p) }
func (o *c03Obj) Says(loud bool, times int32) string   { return "obj" }
func (o *c03Other) Says(loud bool, times int32) string { return "other" }

type c03Other struct {
	Name string
	W    int
}
type c03Mut struct{}

func (m *c03Mut) M(x int32) int { return int(x) }

type c03Schem struct {
	Query    *c03Q
	Mutation *c03Mut
}

// interface strategy: one node type, cyclic
type c03Node struct{ depth int }

func (n *c03Node) Resolve(f *ggql.Field, args map[string]interface{}) (interface{}, error) {
	switch f.Name {
	case "a", "b", "two", "w", "n", "m":
		return 1, nil
	case "s", "name":
		return "s", nil
	case "o", "next", "query", "mutation":
		return n, nil
	case "os", "kids":
		return []interface{}{n}, nil
	case "u":
		return []interface{}{n, &c03OtherNode{}, n}, nil
	case "says":
		return "obj", nil
	}
	return nil, nil
}

type c03OtherNode struct{}

func (n *c03OtherNode) Resolve(f *ggql.Field, args map[string]interface{}) (interface{}, error) {
	switch f.Name {
	case "w":
		return 1, nil
	case "name", "says":
		return "other", nil
	}
	return nil, nil
}

// any strategy: cyclic maps
type c03Any struct{}

func (c03Any) Resolve(obj interface{}, f *ggql.Field, args map[string]interface{}) (interface{}, error) {
	if m, ok := obj.(map[string]interface{}); ok {
		return m[f.Name], nil
	}
	return nil, nil
}
func (c03Any) Len(list interface{}) int {
	if l, ok := list.([]interface{}); ok {
		return len(l)
	}
	return 0
}
func (c03Any) Nth(list interface{}, i int) (interface{}, error) {
	if l, ok := list.([]interface{}); ok && i < len(l) {
		return l[i], nil
	}
	return nil, nil
}

type c03Priv struct {
	b     int32
	items []string
}

func (p *c03Priv) B() int32        { return p.b }
func (p *c03Priv) Items() []string { return p.items }

type c03PrivSchem struct{ Query *c03Priv }

type c03Var struct{ B int32 }

func (q *c03Var) Names(names ...string) string { return strings.Join(names, ",") }
func (q *c03Var) Tags(tags ...string) string   { return strings.Join(tags, ",") }

type c03VarSchem struct{ Query *c03Var }

type c03PIn struct {
	Tags []string
	N    int
	P    []*int32
}
type c03InQ struct{ B int32 }

func (q *c03InQ) Take(in *c03PIn) int32 {
	if in == nil {
		return -1
	}
	return int32(len(in.Tags))
}

type c03InSchem struct{ Query *c03InQ }

func c03Root(strategy string) *ggql.Root {
	var root *ggql.Root
	switch strategy {
	case "iface":
		n := &c03Node{}
		root = ggql.NewRoot(n)
		defer func() {
			_ = root.RegisterType(&c03Node{}, "Obj")
			_ = root.RegisterType(&c03OtherNode{}, "Other")
		}()
	case "any":
		obj := map[string]interface{}{"name": "x", "two": 2, "w": 1}
		obj["next"] = obj
		obj["kids"] = []interface{}{obj}
		q := map[string]interface{}{"a": 1, "b": 2, "s": "s", "o": obj, "os": []interface{}{obj, nil}, "u": []interface{}{obj}, "n": 1}
		top := map[string]interface{}{"query": q, "mutation": map[string]interface{}{"m": 1}}
		root = ggql.NewRoot(top)
		root.AnyResolver = c03Any{}
	case "reflect":
		o := &c03Obj{Name: "x"}
		o.Next = o
		o.Kids = []*c03Obj{o}
		root = ggql.NewRoot(&c03Schem{Query: &c03Q{B: 2, O: o, Os: []*c03Obj{o, nil}}, Mutation: &c03Mut{}})
	case "nilroot":
		root = ggql.NewRoot(nil)
	}
	if err := root.ParseString(c03Schema); err != nil {
		panic("c03 schema: " + err.Error())
	}
	return root
}

// c03RunEntry is executed inside the worker: returns "ret" when every call returned.
func c03RunEntry(kind string, arg1, arg2, arg3 []byte) T {
	switch kind {
	case "load": // arg1 = SDL
		root := ggql.NewRoot(nil)
		if err := root.ParseString(string(arg1)); err == nil {
			_ = root.SDL(true, true)
			_ = root.SDL(false)
			_ = root.ResolveString(`{__schema{types{name kind fields(includeDeprecated:true){name args{name defaultValue type{name kind ofType{name}}} type{name}} inputFields{name defaultValue} enumValues{name} interfaces{name} possibleTypes{name}} directives{name locations args{name defaultValue}}}}`, "", nil)
		}
		return A("ret")
	case "resolve": // arg1 = strategy, arg2 = document, arg3 = JSON {"op":..,"vars":..}
		root := c03Root(string(arg1))
		var spec struct {
			Op   string                 `json:"op"`
			Vars map[string]interface{} `json:"vars"`
			Nil  bool                   `json:"nilvars"`
		}
		_ = json.Unmarshal(arg3, &spec)
		vars := spec.Vars
		if spec.Nil {
			vars = nil
		}
		res := root.ResolveString(string(arg2), spec.Op, vars)
		var buf bytes.Buffer
		_ = ggql.WriteJSONValue(&buf, res, 2)
		_ = ggql.WriteSDLValue(&buf, res, -1)
		return A("ret")
	case "api": // arg1 = scenario: roots that were not filled by one successful load
		queryObj := func() *ggql.Object {
			obj := &ggql.Object{Base: ggql.Base{N: "Query"}}
			_ = obj.AddField(&ggql.FieldDef{Base: ggql.Base{N: "b"}, Type: &ggql.Ref{Base: ggql.Base{N: "Int"}}})
			return obj
		}
		top := func() interface{} { return &c03Schem{Query: &c03Q{B: 2}, Mutation: &c03Mut{}} }
		reqs := []string{"{ b }", "{ __schema { queryType { name } types { name } } }", "mutation { m(x: 1) }", "subscription { b }", "{ __typename }"}
		var root *ggql.Root
		switch string(arg1) {
		case "fresh":
			root = ggql.NewRoot(top())
		case "fresh-nilobj":
			root = ggql.NewRoot(nil)
		case "zero":
			root = &ggql.Root{}
		case "addtypes":
			root = ggql.NewRoot(top())
			_ = root.AddTypes(queryObj())
		case "addtypes-then-load":
			root = ggql.NewRoot(top())
			_ = root.AddTypes(queryObj())
			_ = root.ParseString("type Mutation { m(x: Int): Int }")
		case "failed-load-only":
			root = ggql.NewRoot(top())
			_ = root.ParseString("type Query { b: Zork }")
		case "enum-then-query":
			root = ggql.NewRoot(top())
			_ = root.ParseString("enum E { A }")
			_ = root.ParseString("type Query { b: Int }")
		case "extend-schema-fresh":
			root = ggql.NewRoot(top())
			_ = root.ParseString("type Query { b: Int }\ntype M { m(x: Int): Int }\nextend schema { mutation: M }")
		case "extend-schema-dir-fresh":
			root = ggql.NewRoot(top())
			_ = root.ParseString("directive @x on SCHEMA\nextend schema @x")
		case "extend-schema-implied":
			root = ggql.NewRoot(top())
			_ = root.ParseString("type Query { b: Int }\ntype M { m(x: Int): Int }")
			_ = root.ParseString("extend schema { mutation: M }")
		case "reflect-variadic-method":
			// a field bound to a variadic Go method: the arguments must be checked against the variadic parameter
			// too (reflect.Value.Call panics on a mismatch)
			root = ggql.NewRoot(&c03VarSchem{Query: &c03Var{}})
			_ = root.ParseString("type Query { b: Int names(a: Int): String tags(a: String, b: String): String }")
			reqs = append(reqs, "{ names(a: 3) }", "{ names }", `{ tags(a: "x", b: "y") }`, `{ tags(a: "x") }`, "{ tags }")
		case "reflect-input-null-member":
			// an input object bound to a Go struct, given a list with a null member for a []string field
			root = ggql.NewRoot(&c03InSchem{Query: &c03InQ{}})
			_ = root.ParseString("input PIn { tags: [String] n: Int p: [Int] }\ntype Query { b: Int take(in: PIn): Int }")
			_ = root.RegisterType(&c03PIn{}, "PIn")
			reqs = append(reqs, "{ take(in: {tags: [null], n: 1}) }", "{ take(in: {tags: null, n: null}) }", "{ take(in: {p: [1, null]}) }", `{ take(in: {tags: ["a"], n: 2}) }`)
		case "reflect-unexported-member":
			// a Go struct with an unexported member whose name is a field's name in another case, next to the
			// method that serves the field: reflection must not read the member
			root = ggql.NewRoot(&c03PrivSchem{Query: &c03Priv{b: 7, items: []string{"x"}}})
			_ = root.ParseString("type Query { b: Int items: [String] }")
			reqs = append(reqs, "{ items }", "{ b items }")
		default:
			return A("bad-kind")
		}
		for _, rq := range reqs {
			res := root.ResolveString(rq, "", nil)
			var buf bytes.Buffer
			_ = ggql.WriteJSONValue(&buf, res, 2)
		}
		_ = root.SDL(true, true)
		_, _ = root.AddEvent("x", 1)
		_ = root.Unsubscribe("x")
		return A("ret")
	case "value": // arg1 = text: parse and print in every mode
		v, err := ggql.ParseValueString(string(arg1))
		if err == nil {
			var buf bytes.Buffer
			for _, ind := range []int{-1, 0, 2} {
				_ = ggql.WriteJSONValue(&buf, v, ind)
				_ = ggql.WriteSDLValue(&buf, v, ind)
			}
		}
		return A("ret")
	}
	return A("bad-kind")
}

func c03Worker() {
	debug.SetMaxStack(48 << 20)
	in := bufio.NewReaderSize(os.Stdin, 1<<20)
	out := bufio.NewWriter(os.Stdout)
	for {
		line, err := in.ReadString('\n')
		if line == "" && err != nil {
			return
		}
		f := strings.Fields(line)
		dec := func(i int) []byte {
			if i >= len(f) || f[i] == "-" {
				return nil
			}
			b, _ := hex.DecodeString(f[i])
			return b
		}
		var obs T
		done := make(chan T, 1)
		go func() {
			switch {
			case len(f) >= 4 && f[0] == "p":
				done <- c03RunParse(f[1], f[2], dec(3))
			case len(f) >= 5 && f[0] == "r":
				done <- c03RunEntry(f[1], dec(2), dec(3), dec(4))
			default:
				done <- A("bad-line")
			}
		}()
		select {
		case obs = <-done:
		case <-time.After(c03Timeout):
			// the call has not returned: name where it is spinning, then give up this process
			buf := make([]byte, 4<<20)
			n := runtime.Stack(buf, true)
			fmt.Fprintln(out, N("hang", S(c03HangClass(string(buf[:n])))).String())
			out.Flush()
			os.Exit(3)
		}
		fmt.Fprintln(out, obs.String())
		out.Flush()
		if err != nil {
			return
		}
	}
}

// ---- worker pool with watchdog ----------------------------------------------------------------------------

type c03Job struct {
	line  string // worker protocol line
	obs   T
	crash string // stderr tail when the worker died
}

type c03Proc struct {
	cmd    *exec.Cmd
	stdin  io.WriteCloser
	stdout *bufio.Reader
	stderr *bytes.Buffer
}

func c03Start() *c03Proc {
	cmd := exec.Command(os.Args[0], "c03worker")
	cmd.Env = append(os.Environ(), "GOMEMLIMIT=1GiB", "GOTRACEBACK=all", "GOMAXPROCS=2")
	in, _ := cmd.StdinPipe()
	outp, _ := cmd.StdoutPipe()
	eb := &bytes.Buffer{}
	cmd.Stderr = eb
	if err := cmd.Start(); err != nil {
		panic(err)
	}
	return &c03Proc{cmd: cmd, stdin: in, stdout: bufio.NewReaderSize(outp, 1<<20), stderr: eb}
}

func (p *c03Proc) kill() {
	_ = p.stdin.Close()
	_ = p.cmd.Process.Kill()
	_, _ = p.cmd.Process.Wait()
}

var c03Timeout = 1500 * time.Millisecond

// c03RunAll runs the jobs over n workers; a job that kills or wedges its worker is answered with a
// panic / hang observation and the worker is replaced.
func c03RunAll(jobs []*c03Job, n int) {
	var wg sync.WaitGroup
	ch := make(chan *c03Job, len(jobs))
	for _, j := range jobs {
		ch <- j
	}
	close(ch)
	for w := 0; w < n; w++ {
		wg.Add(1)
		go func() {
			defer wg.Done()
			p := c03Start()
			defer func() { p.kill() }()
			for j := range ch {
				if _, err := io.WriteString(p.stdin, j.line+"\n"); err != nil {
					p.kill()
					p = c03Start()
					_, _ = io.WriteString(p.stdin, j.line+"\n")
				}
				type ans struct {
					s   string
					err error
				}
				ac := make(chan ans, 1)
				rd := p.stdout
				go func() { s, err := rd.ReadString('\n'); ac <- ans{s, err} }()
				select {
				case a := <-ac:
					if a.err != nil || strings.TrimSpace(a.s) == "" {
						// the worker died: classify from its stderr
						_ = p.cmd.Wait()
						j.crash = p.stderr.String()
						j.obs = N("panic", S(c03CrashClass(j.crash)))
						p = c03Start()
					} else {
						j.obs = parseTerm(strings.TrimSpace(a.s))
						if j.obs.Tag == "hang" {
							j.crash = "worker watchdog: the call did not return within " + c03Timeout.String()
							p.kill()
							p = c03Start()
						}
					}
				case <-time.After(c03Timeout + 4*time.Second):
					// ask the runtime for the goroutine stacks (SIGQUIT), then kill
					_ = p.cmd.Process.Signal(syscall.SIGQUIT)
					done := make(chan struct{})
					go func() { _ = p.cmd.Wait(); close(done) }()
					select {
					case <-done:
					case <-time.After(2 * time.Second):
					}
					st := p.stderr.String()
					p.kill()
					j.obs = N("hang", S(c03HangClass(st)))
					j.crash = "watchdog: no answer within " + c03Timeout.String() + "\n" + st
					p = c03Start()
				}
			}
		}()
	}
	wg.Wait()
}

// parseTerm reads back a rendered term (only what the worker prints).
func parseTerm(s string) T {
	toks := []string{}
	cur := strings.Builder{}
	flush := func() {
		if cur.Len() > 0 {
			toks = append(toks, cur.String())
			cur.Reset()
		}
	}
	for _, c := range s {
		switch c {
		case '(', ')':
			flush()
			toks = append(toks, string(c))
		case ' ':
			flush()
		default:
			cur.WriteRune(c)
		}
	}
	flush()
	pos := 0
	var rec func() T
	rec = func() T {
		if pos >= len(toks) {
			return A("?")
		}
		t := toks[pos]
		pos++
		if t != "(" {
			return A(t)
		}
		tag := toks[pos]
		pos++
		var args []T
		for pos < len(toks) && toks[pos] != ")" {
			args = append(args, rec())
		}
		pos++
		return N(tag, args...)
	}
	return rec()
}

// c03HangClass names where a wedged worker was spinning (from the SIGQUIT goroutine dump).
func c03HangClass(dump string) string {
	has := func(s string) bool { return strings.Contains(dump, s) }
	switch {
	case has("ggql.parseSDL("):
		return "sdl-spin"
	case has("ggql.parseExe(") && !has("resolve"):
		return "exe-spin"
	case has("ggql.writeValue(") || has("ggql.writeMap(") || has("fmt.(*pp)"):
		return "cyclic-print"
	case has("resolveFragRef"):
		return "fragcycle-overflow"
	}
	re := regexp.MustCompile(`github\.com/uhn/ggql/pkg/ggql\.([^\s(]*\(?[^\s)]*\)?[^\s(]*)\(`)
	if m := re.FindStringSubmatch(dump); m != nil {
		return "hang@" + m[1]
	}
	return "hang"
}

// c03CrashClass names where a dead worker died (the classes of the listed findings, else the top ggql frame).
func c03CrashClass(stderr string) string {
	has := func(s string) bool { return strings.Contains(stderr, s) }
	overflow := has("stack overflow") || has("goroutine stack exceeds")
	switch {
	case overflow && has("resolveFragRef"):
		return "fragcycle-overflow"
	case overflow && has("fmt.(*pp)"):
		return "cyclic-print"
	case overflow && (has(".readValue") || has(".readSelectionSet") || has(".readType")):
		return "deep-nesting-overflow"
	case has("formReflectArgs") || has("reflect.Value.Call") || has("reflect: Call"):
		return "reflect-args"
	case has("(*VarDef).Validate"):
		return "vardef-nil-type"
	case has("(*Root).regField") && has("nil pointer"):
		return "nil-root-object"
	case has("(*InputField).") && has("nil pointer"):
		return "inputfield-nil-type"
	case has("(*Root).addExtends") && has("nil pointer"):
		return "nil-schema-extend"
	case has("(*Root).ResolveExecutable") && has("nil pointer") && !has("(*Root).resolveSels"):
		return "nil-schema-resolve"
	}
	// top ggql frame
	re := regexp.MustCompile(`github\.com/uhn/ggql/pkg/ggql\.([^\s(]*\(?[^\s)]*\)?[^\s(]*)\(`)
	if m := re.FindStringSubmatch(stderr); m != nil {
		kind := "panic"
		if overflow {
			kind = "overflow"
		}
		return kind + "@" + m[1]
	}
	if overflow {
		return "overflow"
	}
	if has("out of memory") || has("cannot allocate") {
		return "oom"
	}
	return "died"
}

// ---- generators ------------------------------------------------------------------------------------------

var c03Corpus = []struct{ kind, text string }{
	{"sdl", "}"}, {"sdl", "type Query { a: Int } }"}, {"sdl", "extend }"}, {"sdl", "\"d\" }"}, {"sdl", "{"}, {"sdl", "@"},
	{"sdl", "type Query { a: Int }\x00type B { b: Int }"}, {"sdl", "\"a\" \"b\" scalar S"}, {"sdl", "input I { a = 3 }"},
	{"sdl", "input I { a: Int = }"}, {"sdl", "type A implements & B { a: Int }"}, {"sdl", "union U = | A | [B"},
	{"sdl", "union U = [A"}, {"sdl", "enum E { A A }"}, {"sdl", "type T { a(x: Int x: Int): Int }"}, {"sdl", "type T { \"\\q\" a: Int }"},
	{"sdl", "directive @d(a: Int = [1 on X"}, {"sdl", "directive @d on | A | B"}, {"sdl", "schema @a(b: 1) { query: Q }"},
	{"sdl", "extend extend type A { a: Int }"}, {"sdl", "type A { : Int }"}, {"sdl", "type A { a: [Int }"}, {"sdl", "\xef\xbb\xbfscalar S"},
	{"sdl", "\xef\xbbscalar"}, {"sdl", "\xef"}, {"sdl", "\"\"\"x"}, {"sdl", "\"\"\"a\"\"b\"\"\" scalar S"}, {"sdl", "scalar S # c"},
	{"sdl", "type A { a(: Int): Int }"}, {"sdl", "type"}, {"sdl", "type A"}, {"sdl", "type A {"}, {"sdl", "type A { a"},
	{"exe", "{"}, {"exe", "}"}, {"exe", "{a"}, {"exe", "{a{"}, {"exe", "query"}, {"exe", "query Q("}, {"exe", "query($v: ){ b }"},
	{"exe", "{ ...F } fragment F on Query { ...F }"}, {"exe", "fragment F on"}, {"exe", "fragment F"}, {"exe", "{a:}"}, {"exe", "{a: b: c}"},
	{"exe", "{ ... on Zork { a } }"}, {"exe", "{ ... @skip(if: true) { a } }"}, {"exe", "{ .. a }"}, {"exe", "{a}{b}"}, {"exe", "query A{a} query A{b}"},
	{"exe", "fragment F on Query {a} fragment F on Query {b}"}, {"exe", "{a(x: [1,2}"}, {"exe", "{a(x: {k: })}"}, {"exe", "{a @x(}"}, {"exe", "{a(x:1e999)}"},
	{"exe", "{a(x:-)}"}, {"exe", "{a(x:1.2.3)}"}, {"exe", "{a(x:\"\\u12g4\")}"}, {"exe", "mutation\n"}, {"exe", "{a}\x00{b}"}, {"exe", "zork"},
	{"val", "["}, {"val", "{"}, {"val", "[[[[[[[["}, {"val", "{a:{b:{c:"}, {"val", "1e5x"}, {"val", "-"}, {"val", "\"abc"}, {"val", "\"\\"}, {"val", "$"},
	{"val", "@"}, {"val", "tru"}, {"val", "{\"a\" 1}"}, {"val", "[1 2,,3]"}, {"val", "\"\"\"a\"\""}, {"val", "123456789012345678901234567890"}, {"val", "1e400"}, {"val", ".5"},
	{"val", "+1"}, {"val", "1."}, {"val", "1e"}, {"val", "\x00"}, {"val", "[\x00]"}, {"val", "#c"}, {"val", "#c\n1"},
}

var c03Punct = []string{"{", "}", "(", ")", "[", "]", ":", "!", "@", "$", "=", "|", "&", "\"", "\"\"\"", "...", ".", "#", ",", "\x00", "\n", "\\", "-", "1", "on", "extend", "type", "fragment", "query", "implements", "\xef\xbb\xbf", "é"}

func c03Tokens(s string) []string {
	re := regexp.MustCompile(`[A-Za-z_0-9]+|"""|\.\.\.|"(?:[^"\\]|\\.)*"|\s+|.`)
	return re.FindAllString(s, -1)
}

// c03Mutate applies 1..3 grammar-aware mutations.
func c03Mutate(r *Rng, s string) string {
	toks := c03Tokens(s)
	n := 1 + r.Intn(3)
	for k := 0; k < n && len(toks) > 0; k++ {
		i := r.Intn(len(toks))
		switch r.Intn(7) {
		case 0: // delete a token
			toks = append(toks[:i:i], toks[i+1:]...)
		case 1: // duplicate
			toks = append(toks[:i+1:i+1], toks[i:]...)
		case 2: // swap with neighbour
			if i+1 < len(toks) {
				toks[i], toks[i+1] = toks[i+1], toks[i]
			}
		case 3: // stray punctuation
			toks = append(toks[:i:i], append([]string{Pick(r, c03Punct)}, toks[i:]...)...)
		case 4: // replace
			toks[i] = Pick(r, c03Punct)
		case 5: // truncate
			toks = toks[:i]
		case 6: // truncate inside a token
			if len(toks[i]) > 1 {
				toks[i] = toks[i][:1+r.Intn(len(toks[i])-1)]
				toks = toks[:i+1]
			}
		}
	}
	return strings.Join(toks, "")
}

func c03ValueText(r *Rng, depth int) string {
	switch r.Intn(12) {
	case 0:
		return strconv.Itoa(r.Intn(2000) - 1000)
	case 1:
		return Pick(r, []string{"1.5", "-2.5e3", "1e-7", "0.1", "9223372036854775807", "9223372036854775808", "1e308", "1.8e308", "-0", "00", "1E5", "1e+5"})
	case 2:
		return Pick(r, []string{`"a"`, `""`, `"a\"b"`, `"\u0041"`, `"""blk"""`, `"\n"`, `"é"`, `"a\\"`})
	case 3:
		return Pick(r, []string{"true", "false", "null", "RED", "$v", "$", "a_b"})
	case 4, 5, 6:
		if depth > 4 {
			return "1"
		}
		n := r.Intn(4)
		parts := []string{}
		for i := 0; i < n; i++ {
			parts = append(parts, c03ValueText(r, depth+1))
		}
		return "[" + strings.Join(parts, Pick(r, []string{",", " ", ", ", ""})) + "]"
	case 7, 8, 9:
		if depth > 4 {
			return "{}"
		}
		n := r.Intn(3)
		parts := []string{}
		for i := 0; i < n; i++ {
			k := Pick(r, []string{"a", "b", `"k"`, "k1"})
			parts = append(parts, k+Pick(r, []string{":", ": ", " : "})+c03ValueText(r, depth+1))
		}
		return "{" + strings.Join(parts, Pick(r, []string{",", " ", ", "})) + "}"
	}
	return "x"
}

var c03KnownNames []string

// c03Known: which names of a fresh root the type reader knows (`readType` gives something else than a reference:
// the built-in types; the directives too as long as the type reader finds them), and which of those may be the
// type condition of an inline fragment (object, interface and union types — and, as coded at first, anything
// known).  Both are read off the library's behaviour, not assumed.
func c03Known(data []byte) T {
	if c03KnownNames == nil {
		root := ggql.NewRoot(nil)
		_ = root.ParseString("scalar Zz")
		var cands []string
		for _, t := range root.Types() {
			if t.Name() != "Zz" {
				cands = append(cands, t.Name())
			}
		}
		cands = append(cands, "skip", "include", "deprecated", "go")
		sort.Strings(cands)
		for _, n := range cands {
			_, err := root.ParseExecutableString("{ ... on " + n + " { __typename } }")
			switch {
			case err == nil:
				c03KnownNames = append(c03KnownNames, n)
				c03CompositeNames = append(c03CompositeNames, n)
			case !strings.Contains(err.Error(), "not defined"):
				c03KnownNames = append(c03KnownNames, n)
			}
		}
	}
	pick := func(names []string) T {
		var ts []T
		for _, n := range names {
			if bytes.Contains(data, []byte(n)) {
				ts = append(ts, S(n))
			}
		}
		return LS(ts)
	}
	return N("known", pick(c03KnownNames), pick(c03CompositeNames))
}

var c03CompositeNames []string

type c03Case struct {
	job   *c03Job
	term  T
	meta  map[string]interface{}
	class string
}

func c03Parse(kind, tail string, data []byte, class string) *c03Case {
	return &c03Case{
		job:  &c03Job{line: fmt.Sprintf("p %s %s %s", kind, tail, hexOrDash(data))},
		term: N("c03p", A(kind), S(string(data)), A(tail), c03Known(data)),
		meta: map[string]interface{}{"kind": kind, "tail": tail, "input": string(data), "class": class}, class: class + "/" + kind,
	}
}

func hexOrDash(b []byte) string {
	if len(b) == 0 {
		return "-"
	}
	return hex.EncodeToString(b)
}

func c03Entry(kind string, a1, a2, a3 string, class string) *c03Case {
	return &c03Case{
		job:  &c03Job{line: fmt.Sprintf("r %s %s %s %s", kind, hexOrDash([]byte(a1)), hexOrDash([]byte(a2)), hexOrDash([]byte(a3)))},
		term: N("c03r", S(kind+"|"+a1+"|"+a2+"|"+a3)),
		meta: map[string]interface{}{"kind": kind, "arg1": a1, "arg2": a2, "arg3": a3, "class": class}, class: class,
	}
}

// adversarial requests against c03Schema
func c03Requests(r *Rng) [][2]string {
	fields := []string{"a", "a(x: 1)", "a(x: 1, y: \"s\")", "a(y: \"s\")", "a(x: null)", "a(x: \"no\")", "a(x: $v)", "a(x: 1, z: 2)", "a(x: [1])", "a(x: RED)",
		"b", "s(in: {p: 1})", "s(in: {p: \"x\"})", "s(in: {zz: 1})", "s(in: {r: {r: {p: 1}}})", "s(in: {must: null})", "s(in: $in)", "s(l: [1, null])", "s(l: 1)", "s(l: [[1]])", "s(e: RED)", "s(e: BLUE)", "s(e: \"RED\")",
		"n", "n(req: null)", "n(req: $v)", "n(req: 1)", "o { name }", "o { two }", "o { two(p: 1) }", "o { two(p: 1, q: true) }", "o { two(q: 1) }", "os { name next { name } }", "u { __typename }",
		"u { ... on Obj { name } ... on Other { w } }", "u { name }", "u { says }", "u { says(times: 2) }", "u { says(loud: true) }", "u { says(loud: true, times: 1) }", "u { name says(times: $v) }", "o { says(times: 2) }", "o { ... on Named { name } }", "o { ...F }", "zork", "o { zork }", "__typename", "__type(name: \"Obj\") { name fields { name } }", "__type { name }",
		"__type(name: 3) { name }", "__schema { queryType { name } }", "b @skip", "b @skip(if: $v)", "b @skip(if: 3)", "b @include(if: true) @skip(if: true)", "b @zork", "o @skip(if: false) { name }", "x: b", "b: a"}
	out := [][2]string{}
	mk := func() string {
		n := 1 + r.Intn(3)
		var fs []string
		for i := 0; i < n; i++ {
			fs = append(fs, Pick(r, fields))
		}
		return strings.Join(fs, " ")
	}
	heads := []string{"{ %s }", "query { %s }", "query Q { %s }", "query Q($v: Int) { %s }", "query Q($v: Int = 3) { %s }", "query Q($v: Boolean!) { %s }", "query Q($in: In) { %s }",
		"query Q($v: Zork) { %s }", "query Q($v: [Int!]!) { %s }", "query Q($v: ) { %s }", "query Q($v: Int) @skip(if: true) { %s }", "mutation { m(x: 1) } query Q { %s }", "subscription { %s }", "mutation { %s }"}
	frags := []string{"", " fragment F on Obj { name }", " fragment F on Obj { ...F }", " fragment F on Obj { ...G } fragment G on Obj { ...F }", " fragment F on Obj { next { ...F } }", " fragment F on Zork { name }", " fragment F on Query { o { ...F } }",
		" fragment F on Obj { ...G } fragment G on Obj { ...H } fragment H on Obj { ...F }"}
	varsets := []string{`{}`, `{"vars":{"v":1}}`, `{"vars":{"v":null}}`, `{"vars":{"v":"x"}}`, `{"vars":{"v":[1,2]}}`, `{"vars":{"v":{"a":1}}}`, `{"vars":{"v":true}}`, `{"vars":{"v":1e40}}`, `{"vars":{"v":1.5}}`,
		`{"vars":{"in":{"p":1}}}`, `{"vars":{"in":{"p":"x","zz":[1,{"a":null}]}}}`, `{"vars":{"in":null}}`, `{"vars":{"in":[]}}`, `{"nilvars":true}`, `{"op":"Q"}`, `{"op":"Zork"}`, `{"op":"Q","vars":{"v":2}}`, `{"vars":{"zz":1}}`}
	for i := 0; i < 1; i++ {
		doc := fmt.Sprintf(Pick(r, heads), mk()) + Pick(r, frags)
		out = append(out, [2]string{doc, Pick(r, varsets)})
	}
	return out
}

// c03RefGraph: a few definitions of random kinds with random references among them (fields, implements,
// union members, input fields with defaults, directive uses on directive arguments): the shapes on which
// validation and printing recurse.
func c03RefGraph(r *Rng) string {
	n := 2 + r.Intn(3)
	names := []string{"A", "B", "C", "D"}[:n]
	var b strings.Builder
	kinds := make([]string, n)
	for i := range kinds {
		kinds[i] = Pick(r, []string{"type", "interface", "union", "input", "directive", "directive", "enum"})
	}
	ofKind := func(k string) []string {
		var out []string
		for i, kk := range kinds {
			if kk == k {
				out = append(out, names[i])
			}
		}
		return out
	}
	pick := func(xs []string, dflt string) string {
		if len(xs) == 0 || r.Chance(15) {
			return dflt
		}
		return Pick(r, xs)
	}
	wrap := func(t string) string {
		switch r.Intn(5) {
		case 0:
			return "[" + t + "]"
		case 1:
			return t + "!"
		case 2:
			return "[" + t + "!]!"
		}
		return t
	}
	dirUse := func() string {
		ds := ofKind("directive")
		if len(ds) == 0 || !r.Chance(60) {
			return ""
		}
		return " @" + Pick(r, ds)
	}
	for i, nm := range names {
		switch kinds[i] {
		case "type":
			impl := ""
			if is := ofKind("interface"); len(is) > 0 && r.Chance(60) {
				impl = " implements " + Pick(r, is)
			}
			fmt.Fprintf(&b, "type %s%s%s { f: %s g(x: %s%s): Int%s }\n", nm, impl, dirUse(), wrap(pick(names, "Int")), wrap(pick(ofKind("input"), "Int")), dirUse(), dirUse())
		case "interface":
			fmt.Fprintf(&b, "interface %s%s { f: %s }\n", nm, dirUse(), wrap(pick(names, "Int")))
		case "union":
			fmt.Fprintf(&b, "union %s%s = %s | %s\n", nm, dirUse(), pick(names, "Zork"), pick(names, nm))
		case "input":
			dflt := ""
			if r.Chance(40) {
				dflt = " = " + Pick(r, []string{"{f: {f: null}}", "null", "1", "[{f: 1}]", "{g: 1}"})
			}
			fmt.Fprintf(&b, "input %s%s { f: %s%s%s g: Int }\n", nm, dirUse(), wrap(pick(append(ofKind("input"), ofKind("enum")...), "Int")), dflt, dirUse())
		case "directive":
			locs := "OBJECT | INTERFACE | UNION | INPUT_OBJECT | ENUM | ARGUMENT_DEFINITION | FIELD_DEFINITION | INPUT_FIELD_DEFINITION | ENUM_VALUE"
			fmt.Fprintf(&b, "directive @%s(a: %s%s, b: Int%s) on %s\n", nm, wrap(pick(append(ofKind("input"), ofKind("enum")...), "Int")), dirUse(), dirUse(), locs)
		case "enum":
			fmt.Fprintf(&b, "enum %s%s { X%s Y }\n", nm, dirUse(), dirUse())
		}
	}
	if r.Chance(70) {
		fmt.Fprintf(&b, "type Query { q: %s }\n", pick(names, "Int"))
	}
	return b.String()
}

// c03FragGraph: a request whose named fragments spread each other at random — chains, diamonds, cycles, cycles
// that are only reached through a lead-in fragment that is not on them, with names in random order (the cycle
// check walks the fragments by name).  The property: whatever the graph, the request returns.
func c03FragGraph(r *Rng) string {
	n := 2 + r.Intn(5)
	names := make([]string, n)
	for i := range names {
		names[i] = fmt.Sprintf("%c%d", 'A'+byte(r.Intn(26)), i)
	}
	var b strings.Builder
	b.WriteString("{ b")
	for k := 0; k < 1+r.Intn(2); k++ {
		b.WriteString(" ..." + Pick(r, names))
	}
	b.WriteString(" }")
	for i, nm := range names {
		b.WriteString(" fragment " + nm + " on Query { b")
		switch {
		case r.Chance(12):
			b.WriteString(" ..." + nm) // itself
		case r.Chance(70):
			for k := 0; k < 1+r.Intn(2); k++ {
				b.WriteString(" ..." + names[r.Intn(n)])
			}
		}
		if r.Chance(30) && i > 0 {
			b.WriteString(" o { ..." + names[r.Intn(n)] + "X }")
		}
		b.WriteString(" }")
	}
	return b.String()
}

// c03FragCheck: a request whose fragments spread each other at random (all on Query, spreads directly or under
// an inline fragment), parsed — which validates it — with the fragments the validation reports as spreading
// themselves compared with the model of the cycle check on the same graph.
func c03FragCheck(o *Out, r *Rng) {
	n := 2 + r.Intn(6)
	names := make([]string, n)
	seen := map[string]bool{}
	for i := range names {
		for {
			names[i] = fmt.Sprintf("%c%c", 'A'+byte(r.Intn(26)), 'a'+byte(r.Intn(26)))
			if !seen[names[i]] {
				seen[names[i]] = true
				break
			}
		}
	}
	edges := map[string][]string{}
	var b strings.Builder
	b.WriteString("{ b ..." + Pick(r, names) + " }")
	for _, nm := range names {
		b.WriteString(" fragment " + nm + " on Query { b")
		k := 0
		switch {
		case r.Chance(10):
			edges[nm] = append(edges[nm], nm)
			b.WriteString(" ..." + nm)
		case r.Chance(75):
			k = 1 + r.Intn(3)
		}
		for j := 0; j < k; j++ {
			t := names[r.Intn(n)]
			edges[nm] = append(edges[nm], t)
			if r.Chance(30) {
				b.WriteString(" ... on Query { b ..." + t + " }")
			} else {
				b.WriteString(" ..." + t)
			}
		}
		b.WriteString(" }")
	}
	root := ggql.NewRoot(nil)
	if err := root.ParseString("type Query { b: Int }"); err != nil {
		panic(err)
	}
	_, err := root.ParseExecutableString(b.String())
	var reported []T
	if err != nil {
		re := regexp.MustCompile(`fragment (\w+) spreads itself`)
		for _, m := range re.FindAllStringSubmatch(err.Error(), -1) {
			reported = append(reported, S(m[1]))
		}
		if len(reported) == 0 {
			o.Count("fragcheck-other-error")
			return
		}
	}
	sorted := append([]string{}, names...)
	sort.Strings(sorted)
	var nt, et []T
	for _, nm := range sorted {
		nt = append(nt, S(nm))
		var ss []T
		for _, t := range edges[nm] {
			ss = append(ss, S(t))
		}
		et = append(et, N("e", S(nm), LS(ss)))
	}
	if len(reported) > 0 {
		o.Count("fragcheck-cyclic")
	} else {
		o.Count("fragcheck-acyclic")
	}
	o.Emit(Case{Term: N("c03f", LS(nt), LS(et)), Obs: LS(reported), Meta: map[string]interface{}{"doc": b.String(), "class": "fragcheck"}, Nontrivial: true})
}

func c03Deep(open, close string, n int) string {
	return strings.Repeat(open, n) + strings.Repeat(close, n)
}

func runC03(o *Out, r *Rng, tier string) {
	nMal, nEntry := 6000, 1500
	if tier == "thorough" {
		nMal, nEntry = 120000, 30000
	}
	// the fragment-cycle check against its model (in process: parsing a request returns)
	nFrag := 400
	if tier == "thorough" {
		nFrag = 20000
	}
	for i := 0; i < nFrag; i++ {
		c03FragCheck(o, r.Fork())
	}
	var cases []*c03Case
	tails := []string{"eof", "eof", "eof", "eofLast", "fault"}
	// corpus first: every tail, and every truncation of the short ones with a faulting reader
	for _, c := range c03Corpus {
		for _, tl := range []string{"eof", "eofLast", "fault"} {
			cases = append(cases, c03Parse(c.kind, tl, []byte(c.text), "corpus"))
		}
		if len(c.text) <= 24 {
			for k := 0; k < len(c.text); k++ {
				cases = append(cases, c03Parse(c.kind, "fault", []byte(c.text[:k]), "corpus-fault-offset"))
			}
		}
	}
	// valid documents and their mutations
	for i := 0; len(cases) < nMal; i++ {
		rr := r.Fork()
		switch i % 3 {
		case 0:
			set := genSet(rr, sdlOpts{hardDescs: rr.Chance(50), defaults: true, dirUses: true, schemaBlk: rr.Chance(30)})
			txt := set.sdl(true)
			if len(txt) > 1500 {
				txt = txt[:1500]
			}
			if rr.Chance(15) {
				cases = append(cases, c03Parse("sdl", Pick(rr, tails), []byte(txt), "valid"))
			}
			for k := 0; k < 4; k++ {
				m := c03Mutate(rr, txt)
				tl := Pick(rr, tails)
				if tl == "fault" && len(m) > 0 {
					m = m[:rr.Intn(len(m))]
				}
				cases = append(cases, c03Parse("sdl", tl, []byte(m), "mutated"))
			}
		case 1:
			s := genSchema(rr)
			d := genDoc(rr, s, docOpts{collisions: true, abstract: true, maxDepth: 3})
			txt := d.text()
			if rr.Chance(15) {
				cases = append(cases, c03Parse("exe", Pick(rr, tails), []byte(txt), "valid"))
			}
			for k := 0; k < 4; k++ {
				m := c03Mutate(rr, txt)
				tl := Pick(rr, tails)
				if tl == "fault" && len(m) > 0 {
					m = m[:rr.Intn(len(m))]
				}
				cases = append(cases, c03Parse("exe", tl, []byte(m), "mutated"))
			}
		case 2:
			txt := c03ValueText(rr, 0)
			cases = append(cases, c03Parse("val", Pick(rr, tails), []byte(txt), "valid"))
			for k := 0; k < 3; k++ {
				cases = append(cases, c03Parse("val", Pick(rr, tails), []byte(c03Mutate(rr, txt)), "mutated"))
			}
		}
	}
	// moderately deep nesting: must simply return (the model's fuel bound is linear in the input)
	// … and nesting around the scanners' limit (MaxParseDepth = 1000 once D03 is repaired): one below, at, and
	// one and two above, where the error position must be the bracket that goes too deep
	for _, n := range []int{50, 400, 999, 1000, 1001, 1002, 3000} {
		cases = append(cases, c03Parse("val", "eof", []byte(c03Deep("[", "]", n)), "nested"))
		cases = append(cases, c03Parse("val", "eof", []byte(strings.Repeat("{a:", n)+"1"+strings.Repeat("}", n)), "nested"))
		cases = append(cases, c03Parse("exe", "eof", []byte(strings.Repeat("{a", n)+strings.Repeat("}", n)), "nested"))
		cases = append(cases, c03Parse("sdl", "eof", []byte("type Q { a: "+c03Deep("[", "]", n)[:n]+"Int"+strings.Repeat("]", n)+" }"), "nested"))
	}
	// entry points
	entryStart := len(cases)
	strategies := []string{"iface", "any", "reflect"}
	fixed := [][3]string{
		{"resolve", "{ ...F } fragment F on Query { ...F }", `{}`},
		{"resolve", "{ o { ...F } } fragment F on Obj { next { ...F } }", `{}`},
		{"resolve", "query($v: ){ b }", `{}`},
		{"resolve", "{ ...Entry } fragment Entry on Query { b ...Loop } fragment Loop on Query { b ...Loop }", `{}`},
		{"resolve", "{ ...Alpha } fragment Alpha on Query { ...Beta } fragment Beta on Query { ...Gamma } fragment Gamma on Query { b ...Beta }", `{}`},
		{"resolve", "{ b } fragment Zed on Query { ...Yak } fragment Yak on Query { ...Zed }", `{}`},
		{"resolve", "{ a(x: 1) }", `{}`}, {"resolve", "{ a }", `{}`}, {"resolve", "{ o { two(p: 1) } }", `{}`},
		{"resolve", "{ b }", `{"nilvars":true}`},
		{"resolve", "{ o " + strings.Repeat("{ next ", 120) + "{ name }" + strings.Repeat(" }", 120) + " }", `{}`},
		{"resolve", "{ o " + strings.Repeat("{ kids ", 101) + "{ name }" + strings.Repeat(" }", 101) + " }", `{}`},
	}
	for _, f := range fixed {
		for _, st := range append(strategies, "nilroot") {
			cases = append(cases, c03Entry("resolve", st, f[1], f[2], "fixed-request"))
		}
	}
	loads := []string{"input I { a = 3 }\ntype Query { f(i: I): Int }", "directive @a(x: Int @b) on OBJECT\ndirective @b(y: Int @a) on ARGUMENT_DEFINITION", "type A implements A { a: Int }", "interface I { a: I }\ntype T implements I { a: T }",
		"union U = U", "union U = Zork", "extend type Zork { a: Int }", "schema { query: Int }", "schema { query: Q }", "enum E { }", "type T { a: [[[[T!]!]!]!]! }", "input I { a: I! }", "type Query { a(x: I = {a: {a: {a: 1}}}): Int }\ninput I { a: I }",
		"type Query { a: Int @deprecated(reason: 3) }", "type Query { a: Int @skip }", "scalar Int", "type Query { a: Int }\ntype Query { b: Int }", "extend schema { mutation: M }", "type Query { a: Int = 3 }", "directive @d on ZORK", "\"\"\"d\"\"\" type Query { \"f\" a(\"x\" x: Int = 1): Int }",
		"type Query { a(x: [Int] = [1, [2]]): Int }", "enum E { true }", "type __T { a: Int }", "type T { __a: Int }", "directive @d(a: Int = {b: [1, {c: $v}]}) on OBJECT\ntype T @d { a: Int }", "type Q @go(type: 3) { a: Int }",
		"directive @entry(a: Int @ping) on OBJECT\ndirective @ping(b: Int @pong) on ARGUMENT_DEFINITION\ndirective @pong(c: Int @ping) on ARGUMENT_DEFINITION",
		"directive @d(a: Int @dep, b: Int @dep) on OBJECT\ndirective @dep on ARGUMENT_DEFINITION"}
	for _, l := range loads {
		cases = append(cases, c03Entry("load", l, "", "", "fixed-load"))
	}
	// very deep nesting through the public entry points: must return (an error), not exhaust the stack (D03)
	for _, n := range []int{100000, 4000000} {
		cases = append(cases, c03Entry("value", strings.Repeat("[", n), "", "", "very-deep"))
		cases = append(cases, c03Entry("value", strings.Repeat("{a:", n), "", "", "very-deep"))
		cases = append(cases, c03Entry("load", "type Query { a: "+strings.Repeat("[", n)+"Int }", "", "", "very-deep"))
		cases = append(cases, c03Entry("resolve", "reflect", strings.Repeat("{o", n), "{}", "very-deep"))
		cases = append(cases, c03Entry("resolve", "iface", "{a(x: "+strings.Repeat("[", n)+")}", "{}", "very-deep"))
	}
	for _, doc := range []string{"query($v: []) { a }", "query($v: [[]]!) { a }", "query($v: [] = 1) { a(x: $v) }"} {
		for _, st := range []string{"iface", "reflect"} {
			cases = append(cases, c03Entry("resolve", st, doc, "{}", "list-type-without-member"))
		}
	}
	for _, str := range []string{"\U000F0001", "tag\U000E0001", "\U0010FFFF", "caf\ufffd", "\U0001D173"} {
		cases = append(cases, c03Entry("value", `["`+str+`", {k: "`+str+`"}]`, "", "", "unicode-beyond-bmp"))
		cases = append(cases, c03Entry("load", `"`+str+`" type Query { a(x: String = "`+str+`"): Int }`, "", "", "unicode-beyond-bmp"))
		cases = append(cases, c03Entry("resolve", "iface", `{ a(x: "`+str+`") }`, "{}", "unicode-beyond-bmp"))
	}
	cases = append(cases, c03Entry("load", "type Query { a: [] }", "", "", "list-type-without-member"))
	cases = append(cases, c03Entry("load", "type Query { a(x: [[]]): Int }", "", "", "list-type-without-member"))
	for _, sc := range []string{"fresh", "fresh-nilobj", "zero", "addtypes", "addtypes-then-load", "failed-load-only", "enum-then-query",
		"extend-schema-fresh", "extend-schema-dir-fresh", "extend-schema-implied", "reflect-unexported-member", "reflect-variadic-method", "reflect-input-null-member"} {
		cases = append(cases, c03Entry("api", sc, "", "", "api-root"))
	}
	for i := 0; len(cases)-entryStart < nEntry; i++ {
		rr := r.Fork()
		switch i % 5 {
		case 0, 1, 2:
			for _, rq := range c03Requests(rr) {
				cases = append(cases, c03Entry("resolve", Pick(rr, strategies), rq[0], rq[1], "request"))
			}
		case 3:
			if rr.Chance(35) {
				cases = append(cases, c03Entry("resolve", Pick(rr, strategies), c03FragGraph(rr), "{}", "request-fraggraph"))
				continue
			}
			if rr.Chance(50) {
				cases = append(cases, c03Entry("load", c03RefGraph(rr), "", "", "load-refgraph"))
				continue
			}
			set := genSet(rr, sdlOpts{hardDescs: true, defaults: true, dirUses: true, schemaBlk: rr.Chance(30)})
			txt := set.sdl(true)
			if rr.Chance(60) {
				txt = c03Mutate(rr, txt)
			}
			cases = append(cases, c03Entry("load", txt, "", "", "load"))
		case 4:
			cases = append(cases, c03Entry("value", c03Mutate(rr, c03ValueText(rr, 0)), "", "", "value"))
		}
	}
	if o.only >= 0 {
		// replay: run only the requested case
		if o.only < len(cases) {
			c03RunAll([]*c03Job{cases[o.only].job}, 1)
		}
	} else {
		jobs := make([]*c03Job, len(cases))
		for i, c := range cases {
			jobs[i] = c.job
		}
		c03RunAll(jobs, 12)
	}
	for _, c := range cases {
		if c.job.obs.Atom == "" && !c.job.obs.node {
			c.job.obs = A("not-run")
		}
		if c.job.crash != "" {
			cr := c.job.crash
			if len(cr) > 1500 {
				cr = cr[:1500]
			}
			c.meta["crash"] = cr
		}
		obs := c.job.obs
		if c.term.Tag == "c03p" && obs.Tag == "hang" {
			c.meta["hang_class"] = obs.Args[0].Atom
			obs = A("hang")
		}
		if c.term.Tag == "c03r" {
			switch {
			case obs.Atom == "ret":
			case obs.Tag == "hang" && len(obs.Args) == 1:
				obs = N("crash", obs.Args[0])
			case obs.Tag == "panic" && len(obs.Args) == 1:
				obs = N("crash", obs.Args[0])
			}
		}
		o.Count(c.class)
		switch {
		case obs.Atom == "hang" || obs.Tag == "hang":
			o.Count("obs:hang")
		case obs.Tag == "panic" || obs.Tag == "crash":
			o.Count("obs:crash")
		case obs.Tag == "err":
			o.Count("obs:err-" + obs.Args[0].Atom)
		default:
			o.Count("obs:ok")
		}
		o.Emit(Case{Term: c.term, Obs: obs, Meta: c.meta, Nontrivial: true})
	}
}

func init() { props["C03"] = runC03 }
