package main

import (
	"fmt"
	"github.com/uhn/ggql/pkg/ggql"
	"strings"
)

// ---- C10: undefined things are rejected, never resolved --------------------------------------------

// allFieldSels collects every field selection of the document (operations and fragments).
func allFieldSels(d *gDoc) []*gSel {
	var out []*gSel
	var walk func([]*gSel)
	walk = func(ss []*gSel) {
		for _, s := range ss {
			if s.kind == "field" {
				out = append(out, s)
			}
			walk(s.sels)
		}
	}
	for _, op := range d.ops {
		walk(op.sels)
	}
	for _, f := range d.frags {
		walk(f.sels)
	}
	return out
}

// ifaceSelSets: the field selections of the document whose value is of an interface type (their selection sets are
// resolved at the interface: a field of an implementing object type that the interface does not define is not a
// field there)
func ifaceSelSets(d *gDoc, s *gSchema) []*gSel {
	var out []*gSel
	var walk func(ss []*gSel, ty string)
	walk = func(ss []*gSel, ty string) {
		t := s.by[ty]
		if t == nil {
			return
		}
		for _, sel := range ss {
			switch sel.kind {
			case "field":
				for _, f := range t.fields {
					if f.name == sel.name {
						bn := f.t.baseName()
						if bt := s.by[bn]; bt != nil && bt.kind == "iface" && len(sel.sels) > 0 {
							out = append(out, sel)
						}
						walk(sel.sels, bn)
					}
				}
			case "inline":
				if sel.cond != "" {
					walk(sel.sels, sel.cond)
				} else {
					walk(sel.sels, ty)
				}
			}
		}
	}
	for _, op := range d.ops {
		walk(op.sels, "Query")
	}
	for _, f := range d.frags {
		walk(f.sels, f.cond)
	}
	return out
}

func c10Case(o *Out, r *Rng) {
	s := genSchema(r)
	g := genGraph(r, s)
	c := r.Intn(9)
	// c == 8: a field of a member type selected directly under a union-typed field: the union does not define it
	d := genDoc(r, s, docOpts{collisions: false, abstract: false, maxDepth: 4, fewDirs: true, unionMemberFields: c == 8})
	fields := allFieldSels(d)
	kind := ""
	reject := ""
	switch {
	case c == 8:
		if !strings.Contains(d.text(), "{") {
			return
		}
		kind = "field"
		o.Count("undefined-field=of-a-member-type-at-a-union-position (when generated)")
	case c == 7: // a field of an implementing object type, selected where only the interface is known
		var cands []*gSel
		var names [][]string
		for _, sel := range ifaceSelSets(d, s) {
			// the interface: the base type of the field (looked up again through every object / interface type)
			var in *gType
			for _, t := range s.types {
				for _, f := range t.fields {
					if f.name == sel.name {
						if bt := s.by[f.t.baseName()]; bt != nil && bt.kind == "iface" {
							in = bt
						}
					}
				}
			}
			if in == nil {
				continue
			}
			has := map[string]bool{}
			for _, f := range in.fields {
				has[f.name] = true
			}
			var extra []string
			for _, t := range s.types {
				implements := false
				for _, i := range t.ifaces {
					implements = implements || i == in.name
				}
				if t.kind != "object" || !implements {
					continue
				}
				for _, f := range t.fields {
					req := false
					for _, a := range f.args {
						req = req || a.required
					}
					if bt := s.by[f.t.baseName()]; !has[f.name] && !req && bt != nil && bt.kind == "leaf" {
						extra = append(extra, f.name)
					}
				}
			}
			if len(extra) > 0 {
				cands = append(cands, sel)
				names = append(names, extra)
			}
		}
		if len(cands) == 0 {
			return
		}
		i := r.Intn(len(cands))
		cands[i].sels = append(cands[i].sels, &gSel{kind: "field", name: Pick(r, names[i])})
		kind = "field"
		o.Count("undefined-field=of-the-object-type-at-an-interface-position")
	case c == 0: // undefined field
		f := Pick(r, fields)
		f.name = "zzz"
		f.sels = nil
		f.args = nil
		kind = "field"
	case c == 1: // undeclared argument
		// only top-level fields of an operation: a field AST node executed once (a node reached again
		// through a list has already had its argument list rewritten by sortArgs: C11 / D25)
		var cands []*gSel
		for _, op := range d.ops {
			for _, f := range op.sels {
				if f.kind == "field" && f.name != "__typename" {
					cands = append(cands, f)
				}
			}
		}
		if r.Chance(15) {
			// the meta field declares no argument either
			sel := &gSel{kind: "field", name: "__typename", alias: "tnx"}
			d.ops[0].sels = append(d.ops[0].sels, sel)
			cands = []*gSel{sel}
			o.Count("undeclared-argument=on-__typename")
		}
		if len(cands) == 0 {
			return
		}
		f := Pick(r, cands)
		if r.Chance(35) {
			// an undeclared argument is undeclared whatever its value: also a literal null
			f.args = append(f.args, gArgVal{name: "zz", lit: "null", isNull: true})
		} else {
			f.args = append(f.args, gArgVal{name: "zz", lit: "1"})
		}
		kind = "arg"
	case c == 2: // required argument omitted or null
		var cands []*gSel
		for _, f := range fields {
			for _, a := range f.args {
				if a.name == "r" {
					cands = append(cands, f)
				}
			}
		}
		if len(cands) == 0 {
			return
		}
		f := Pick(r, cands)
		var keep []gArgVal
		for _, a := range f.args {
			if a.name != "r" {
				keep = append(keep, a)
			} else if r.Bool() {
				keep = append(keep, gArgVal{name: "r", lit: "null", isNull: true})
			}
		}
		f.args = keep
		kind = "required"
	default:
		kind = "reject"
		reject = Pick(r, []string{"unknown-directive", "misplaced-directive", "unknown-directive-arg", "undefined-type-condition"})
	}
	root, w, qi := newWorld(s, g)
	doc := d.text()
	if kind == "reject" && reject == "undefined-type-condition" && len(d.frags) > 0 && r.Chance(50) {
		// the undefined type as the condition of a fragment *definition* (inline fragments are covered below)
		fr := Pick(r, d.frags)
		head := "fragment " + fr.name + " on " + fr.cond
		if strings.Contains(doc, head+" ") {
			doc = strings.Replace(doc, head+" ", "fragment "+fr.name+" on Nope ", 1)
			kind = "rejectfragdef"
			o.Count("reject-site=fragment-definition-type")
		}
	}
	if kind == "rejectfragdef" {
		// injected above
	} else if kind == "reject" && reject != "undefined-type-condition" && len(d.frags) > 0 && r.Chance(45) {
		// the directive on a fragment definition (read after the spread that uses it: the definition fills a
		// placeholder), on a fragment spread, or on an inline fragment
		dir := map[string]string{"unknown-directive": "@nope", "misplaced-directive": "@deprecated", "unknown-directive-arg": "@skip(if: false, unless: true)"}[reject]
		fr := Pick(r, d.frags)
		site := r.Intn(3)
		head := "fragment " + fr.name + " on " + fr.cond
		spread := "..." + fr.name
		switch {
		case site == 0 && strings.Contains(doc, head+" {"):
			if reject == "misplaced-directive" && r.Bool() {
				dir = "@skip(if: true)" // FIELD | FRAGMENT_SPREAD | INLINE_FRAGMENT only
			}
			doc = strings.Replace(doc, head+" {", head+" "+dir+" {", 1)
			o.Count("reject-site=fragment-definition")
		case site == 1 && strings.Contains(doc, spread):
			doc = strings.Replace(doc, spread, spread+" "+dir, 1)
			o.Count("reject-site=fragment-spread")
		default:
			j := strings.LastIndex(strings.SplitN(doc, "\n", 2)[0], "}")
			doc = doc[:j] + " ... " + dir + " { __typename } " + doc[j:]
			o.Count("reject-site=inline-fragment")
		}
	} else if kind == "reject" {
		// what stands for a type in the condition: an undefined name, also wrapped; a directive's name (not a type)
		badCond := Pick(r, []string{"Nope", "Nope", "Nope!", "[Nope]", "skip", "Query!", "[Query]", "String", "Int"})
		if reject == "undefined-type-condition" {
			o.Count("bad-type-condition=" + badCond)
		}
		// textual injection at a random field selection of the first operation
		f := Pick(r, fields)
		marker := f.name
		inj := ""
		switch reject {
		case "unknown-directive":
			inj = marker + " @nope"
		case "misplaced-directive":
			inj = marker + " @deprecated"
		case "unknown-directive-arg":
			inj = marker + " @skip(if: false, unless: true)"
		case "undefined-type-condition":
			inj = marker + " ... on " + badCond + " { x }"
		}
		i := strings.Index(doc, marker)
		// put the injection after the whole token (and its arguments) — simplest: only when the field has no args/sels
		if len(f.args) > 0 || len(f.sels) > 0 || f.alias != "" || len(f.dirs) > 0 || i < 0 {
			// fall back to the end of the first selection set
			j := strings.LastIndex(strings.SplitN(doc, "\n", 2)[0], "}")
			switch reject {
			case "undefined-type-condition":
				doc = doc[:j] + " ... on " + badCond + " { x } " + doc[j:]
			case "unknown-directive":
				doc = doc[:j] + " __typename @nope " + doc[j:]
			case "misplaced-directive":
				doc = doc[:j] + " __typename @deprecated " + doc[j:]
			default:
				doc = doc[:j] + " __typename @skip(if: false, unless: true) " + doc[j:]
			}
		} else {
			doc = doc[:i] + inj + doc[i+len(marker):]
		}
	}
	opName := ""
	if len(d.ops) > 1 {
		opName = d.ops[0].name
	}
	*w.calls = nil
	res := safeResolve(root, doc, opName, d.vars)
	o.Count("defect=" + kind)
	if reject != "" {
		o.Count("reject=" + reject)
	}
	o.Emit(Case{
		Term:       N("c10", A(kind), N("walk", s.term(), g.term(), d.opsTerm(), S(opName), LS(d.vt), I(int64(qi)))),
		Obs:        respTerm(res, *w.calls),
		Meta:       map[string]interface{}{"schema": s.sdl(), "doc": doc, "defect": kind + " " + reject, "response": fmt.Sprint(res)},
		Nontrivial: true,
	})
}

func init() {
	props["C10"] = func(o *Out, rng *Rng, tier string) {
		n := 3000
		if tier == "thorough" {
			n = 120000
		}
		for i := 0; i < n; i++ {
			c10Case(o, rng.Fork())
		}
		c10Reflect(o)
		c10Lists(o)
	}
}

// ---- reflection-bound methods: required arguments left out ---------------------------------------------
//
// Fixed table, every run.  Under the reflection strategy a field bound to a Go method gets its arguments
// positionally; an argument that is left out must still be refused when it is required, and the method must not
// be called with a made-up value in its place.

type c10RQ struct {
	calls *[]string
	Size  int32 // the field `size` is bound to this member, not to a method
}

func (q *c10RQ) Greet(name string, loud bool) string {
	*q.calls = append(*q.calls, fmt.Sprintf("greet(%q,%v)", name, loud))
	return "hello " + name
}
func (q *c10RQ) Sum(a int32, b int32) int32 {
	*q.calls = append(*q.calls, fmt.Sprintf("sum(%d,%d)", a, b))
	return a + b
}
func (q *c10RQ) Me() *c10RQ { return q }

type c10RSchema struct{ Query *c10RQ }

var c10RTable = []struct {
	doc    string
	vars   map[string]interface{}
	refuse string // name of the required argument that must be reported; "" = the method is called
}{
	{`{ greet(name: "x", loud: true) }`, nil, ""},
	{`{ greet(loud: true) }`, nil, "name"},
	{`{ me { greet(loud: false) } }`, nil, "name"},
	{`{ sum(b: 2) }`, nil, "a"},
	{`{ sum(a: 1) }`, nil, "b"},
	{`{ sum(a: 1, b: 2) }`, nil, ""},
	{`query($n: String){ greet(name: $n, loud: true) }`, nil, "name"},
	{`query($n: String){ greet(name: $n, loud: true) }`, map[string]interface{}{"n": "v"}, ""},
	{`{ greet(name: null, loud: true) }`, nil, "name"},
	{`{ greet(name: "x") }`, nil, ""}, // an optional argument left out
	{`{ greet }`, nil, "name"},
	{`{ size(unit: "cm") }`, nil, ""},
	{`{ size }`, nil, "unit"},
	{`{ me { size } }`, nil, "unit"},
	{`{ size(unit: null) }`, nil, "unit"},
	{`query($u: String){ size(unit: $u) }`, nil, "unit"},
	{`query($u: String){ size(unit: $u) }`, map[string]interface{}{"u": "cm"}, ""},
}

func c10Reflect(o *Out) {
	for _, e := range c10RTable {
		var calls []string
		q := &c10RQ{calls: &calls, Size: 3}
		root := ggql.NewRoot(&c10RSchema{Query: q})
		if err := root.ParseString("type Query { greet(name: String!, loud: Boolean): String sum(a: Int!, b: Int!): Int me: Query size(unit: String!): Int }"); err != nil {
			panic(err)
		}
		res := safeResolve(root, e.doc, "", e.vars)
		hasErr := res["errors"] != nil
		// a member-bound field is "called" when its value is in the response
		if strings.Contains(canon(res["data"]), `"size":3`) {
			calls = append(calls, "size")
		}
		o.Count("reflection required-argument cases")
		o.Emit(Case{
			Term:       N("c10r", S(e.doc), B(e.refuse != "")),
			Obs:        N("obs", B(len(calls) > 0), B(hasErr)),
			Meta:       map[string]interface{}{"doc": e.doc, "response": fmt.Sprintf("%v", res), "calls": fmt.Sprintf("%v", calls)},
			Nontrivial: true,
		})
	}
}

// ---- undeclared / missing arguments on every member of a list and on each member type of a union ------
//
// A field of the request is one node shared by all the objects it is resolved on.  The property speaks of the
// response and of the resolver for each of them: an undeclared argument (or a required one left out) is an error
// for every member and the resolver of none of them is invoked with it; under a union the declaration that
// counts is the one in the member's own type.  Fixed table, every run.

type c10LNode struct {
	typ   string
	id    string
	calls *[]string
}

func (n *c10LNode) Resolve(f *ggql.Field, args map[string]interface{}) (interface{}, error) {
	*n.calls = append(*n.calls, n.typ+"."+f.Name)
	mk := func(typ, id string) *c10LNode { return &c10LNode{typ: typ, id: id, calls: n.calls} }
	switch f.Name {
	case "query":
		return mk("Query", ""), nil
	case "items":
		return []interface{}{&c10LItem{*mk("Item", "a")}, &c10LOther{*mk("Other", "b")}, &c10LItem{*mk("Item", "c")}}, nil
	case "list":
		return []interface{}{&c10LItem{*mk("Item", "a")}, &c10LItem{*mk("Item", "b")}, &c10LItem{*mk("Item", "c")}}, nil
	case "id":
		return n.id, nil
	case "sub":
		return &c10LItem{*mk("Item", n.id+"'")}, nil
	}
	return n.typ + " " + f.Name, nil
}

type c10LItem struct{ c10LNode }
type c10LOther struct{ c10LNode }

const c10LSDL = `type Query { items: [Thing] list: [Item] }
union Thing = Item | Other
type Item { id: String plain(x: Int): String size(unit: String!): String sub: Item }
type Other { id: String size: String }`

var c10LTable = []struct {
	doc       string
	forbidden string // resolver call that must not happen
	nerr      int    // errors the response must carry
}{
	{`{ list { id plain(x: 1) } }`, "", 0},
	{`{ list { id plain(bogus: 1) } }`, "Item.plain", 3},
	{`{ list { id plain(bogus: null) } }`, "Item.plain", 3},
	{`{ list { id plain(x: 1, bogus: null) } }`, "Item.plain", 3},
	{`{ list { id sub { plain(bogus: 1) } } }`, "Item.plain", 3},
	{`{ list { id size } }`, "Item.size", 3},
	{`{ items { ... on Item { id plain(bogus: 1) } } }`, "Item.plain", 2},
	{`{ items { ... on Item { size(unit: "x") } ... on Other { size(unit: "x") } } }`, "Other.size", 1},
	{`{ items { ... on Other { size(unit: "x") } ... on Item { size(unit: "x") } } }`, "Other.size", 1},
	{`{ items { ... on Other { size } ... on Item { size } } }`, "Item.size", 2},
	{`{ items { ... on Item { size(unit: "x") } ... on Other { size } } }`, "", 0},
}

func c10Lists(o *Out) {
	for _, e := range c10LTable {
		var calls []string
		root := ggql.NewRoot(&c10LNode{typ: "Root", calls: &calls})
		if err := root.ParseString(c10LSDL); err != nil {
			panic(err)
		}
		if err := root.RegisterType(&c10LItem{}, "Item"); err != nil {
			panic(err)
		}
		if err := root.RegisterType(&c10LOther{}, "Other"); err != nil {
			panic(err)
		}
		res := safeResolve(root, e.doc, "", nil)
		nerr := 0
		if ea, ok := res["errors"].([]interface{}); ok {
			nerr = len(ea)
		}
		bad, good := 0, 0
		for _, c := range calls {
			if c == e.forbidden {
				bad++
			} else if strings.HasSuffix(c, ".id") || strings.HasSuffix(c, ".plain") || strings.HasSuffix(c, ".size") {
				good++
			}
		}
		o.Count("list / union member argument cases")
		o.Emit(Case{
			Term:       N("c10l", S(e.doc), I(int64(e.nerr))),
			Obs:        N("obs", I(int64(bad)), I(int64(nerr))),
			Meta:       map[string]interface{}{"doc": e.doc, "response": canon(res), "calls": fmt.Sprintf("%v", calls), "valid_leaf_calls": good},
			Nontrivial: true,
		})
	}
}
