package main

import (
	"fmt"
	"github.com/uhn/ggql/pkg/ggql"
	"strings"
)

// ---- C10: undefined things are rejected, never resolved --------------------------------------------

// allFieldSels collects every field selection of the document (operations and fragments).
func allFieldSels(d *gDoc) []*gSel {
	var out []*gSel
	var walk func([]*gSel)
	walk = func(ss []*gSel) {
		for _, s := range ss {
			if s.kind == "field" {
				out = append(out, s)
			}
			walk(s.sels)
		}
	}
	for _, op := range d.ops {
		walk(op.sels)
	}
	for _, f := range d.frags {
		walk(f.sels)
	}
	return out
}

func c10Case(o *Out, r *Rng) {
	s := genSchema(r)
	g := genGraph(r, s)
	d := genDoc(r, s, docOpts{collisions: false, abstract: false, maxDepth: 4, fewDirs: true})
	fields := allFieldSels(d)
	kind := ""
	reject := ""
	switch c := r.Intn(7); {
	case c == 0: // undefined field
		f := Pick(r, fields)
		f.name = "zzz"
		f.sels = nil
		f.args = nil
		kind = "field"
	case c == 1: // undeclared argument
		// only top-level fields of an operation: a field AST node executed once (a node reached again
		// through a list has already had its argument list rewritten by sortArgs: C11 / D25)
		var cands []*gSel
		for _, op := range d.ops {
			for _, f := range op.sels {
				if f.kind == "field" && f.name != "__typename" {
					cands = append(cands, f)
				}
			}
		}
		if len(cands) == 0 {
			return
		}
		f := Pick(r, cands)
		f.args = append(f.args, gArgVal{name: "zz", lit: "1"})
		kind = "arg"
	case c == 2: // required argument omitted or null
		var cands []*gSel
		for _, f := range fields {
			for _, a := range f.args {
				if a.name == "r" {
					cands = append(cands, f)
				}
			}
		}
		if len(cands) == 0 {
			return
		}
		f := Pick(r, cands)
		var keep []gArgVal
		for _, a := range f.args {
			if a.name != "r" {
				keep = append(keep, a)
			} else if r.Bool() {
				keep = append(keep, gArgVal{name: "r", lit: "null", isNull: true})
			}
		}
		f.args = keep
		kind = "required"
	default:
		kind = "reject"
		reject = Pick(r, []string{"unknown-directive", "misplaced-directive", "unknown-directive-arg", "undefined-type-condition"})
	}
	root, w, qi := newWorld(s, g)
	doc := d.text()
	if kind == "reject" && reject == "undefined-type-condition" && len(d.frags) > 0 && r.Chance(50) {
		// the undefined type as the condition of a fragment *definition* (inline fragments are covered below)
		fr := Pick(r, d.frags)
		head := "fragment " + fr.name + " on " + fr.cond
		if strings.Contains(doc, head+" ") {
			doc = strings.Replace(doc, head+" ", "fragment "+fr.name+" on Nope ", 1)
			kind = "rejectfragdef"
			o.Count("reject-site=fragment-definition-type")
		}
	}
	if kind == "rejectfragdef" {
		// injected above
	} else if kind == "reject" && reject != "undefined-type-condition" && len(d.frags) > 0 && r.Chance(45) {
		// the directive on a fragment definition (read after the spread that uses it: the definition fills a
		// placeholder), on a fragment spread, or on an inline fragment
		dir := map[string]string{"unknown-directive": "@nope", "misplaced-directive": "@deprecated", "unknown-directive-arg": "@skip(if: false, unless: true)"}[reject]
		fr := Pick(r, d.frags)
		site := r.Intn(3)
		head := "fragment " + fr.name + " on " + fr.cond
		spread := "..." + fr.name
		switch {
		case site == 0 && strings.Contains(doc, head+" {"):
			if reject == "misplaced-directive" && r.Bool() {
				dir = "@skip(if: true)" // FIELD | FRAGMENT_SPREAD | INLINE_FRAGMENT only
			}
			doc = strings.Replace(doc, head+" {", head+" "+dir+" {", 1)
			o.Count("reject-site=fragment-definition")
		case site == 1 && strings.Contains(doc, spread):
			doc = strings.Replace(doc, spread, spread+" "+dir, 1)
			o.Count("reject-site=fragment-spread")
		default:
			j := strings.LastIndex(strings.SplitN(doc, "\n", 2)[0], "}")
			doc = doc[:j] + " ... " + dir + " { __typename } " + doc[j:]
			o.Count("reject-site=inline-fragment")
		}
	} else if kind == "reject" {
		// textual injection at a random field selection of the first operation
		f := Pick(r, fields)
		marker := f.name
		inj := ""
		switch reject {
		case "unknown-directive":
			inj = marker + " @nope"
		case "misplaced-directive":
			inj = marker + " @deprecated"
		case "unknown-directive-arg":
			inj = marker + " @skip(if: false, unless: true)"
		case "undefined-type-condition":
			inj = marker + " ... on Nope { x }"
		}
		i := strings.Index(doc, marker)
		// put the injection after the whole token (and its arguments) — simplest: only when the field has no args/sels
		if len(f.args) > 0 || len(f.sels) > 0 || f.alias != "" || len(f.dirs) > 0 || i < 0 {
			// fall back to the end of the first selection set
			j := strings.LastIndex(strings.SplitN(doc, "\n", 2)[0], "}")
			switch reject {
			case "undefined-type-condition":
				doc = doc[:j] + " ... on Nope { x } " + doc[j:]
			case "unknown-directive":
				doc = doc[:j] + " __typename @nope " + doc[j:]
			case "misplaced-directive":
				doc = doc[:j] + " __typename @deprecated " + doc[j:]
			default:
				doc = doc[:j] + " __typename @skip(if: false, unless: true) " + doc[j:]
			}
		} else {
			doc = doc[:i] + inj + doc[i+len(marker):]
		}
	}
	opName := ""
	if len(d.ops) > 1 {
		opName = d.ops[0].name
	}
	*w.calls = nil
	res := safeResolve(root, doc, opName, d.vars)
	o.Count("defect=" + kind)
	if reject != "" {
		o.Count("reject=" + reject)
	}
	o.Emit(Case{
		Term:       N("c10", A(kind), N("walk", s.term(), g.term(), d.opsTerm(), S(opName), LS(d.vt), I(int64(qi)))),
		Obs:        respTerm(res, *w.calls),
		Meta:       map[string]interface{}{"schema": s.sdl(), "doc": doc, "defect": kind + " " + reject, "response": fmt.Sprint(res)},
		Nontrivial: true,
	})
}

func init() {
	props["C10"] = func(o *Out, rng *Rng, tier string) {
		n := 3000
		if tier == "thorough" {
			n = 120000
		}
		for i := 0; i < n; i++ {
			c10Case(o, rng.Fork())
		}
		c10Reflect(o)
	}
}

// ---- reflection-bound methods: required arguments left out ---------------------------------------------
//
// Fixed table, every run.  Under the reflection strategy a field bound to a Go method gets its arguments
// positionally; an argument that is left out must still be refused when it is required, and the method must not
// be called with a made-up value in its place.

type c10RQ struct{ calls *[]string }

func (q *c10RQ) Greet(name string, loud bool) string {
	*q.calls = append(*q.calls, fmt.Sprintf("greet(%q,%v)", name, loud))
	return "hello " + name
}
func (q *c10RQ) Sum(a int32, b int32) int32 {
	*q.calls = append(*q.calls, fmt.Sprintf("sum(%d,%d)", a, b))
	return a + b
}
func (q *c10RQ) Me() *c10RQ { return q }

type c10RSchema struct{ Query *c10RQ }

var c10RTable = []struct {
	doc    string
	vars   map[string]interface{}
	refuse string // name of the required argument that must be reported; "" = the method is called
}{
	{`{ greet(name: "x", loud: true) }`, nil, ""},
	{`{ greet(loud: true) }`, nil, "name"},
	{`{ me { greet(loud: false) } }`, nil, "name"},
	{`{ sum(b: 2) }`, nil, "a"},
	{`{ sum(a: 1) }`, nil, "b"},
	{`{ sum(a: 1, b: 2) }`, nil, ""},
	{`query($n: String){ greet(name: $n, loud: true) }`, nil, "name"},
	{`query($n: String){ greet(name: $n, loud: true) }`, map[string]interface{}{"n": "v"}, ""},
	{`{ greet(name: null, loud: true) }`, nil, "name"},
}

func c10Reflect(o *Out) {
	for _, e := range c10RTable {
		var calls []string
		q := &c10RQ{calls: &calls}
		root := ggql.NewRoot(&c10RSchema{Query: q})
		if err := root.ParseString("type Query { greet(name: String!, loud: Boolean): String sum(a: Int!, b: Int!): Int me: Query }"); err != nil {
			panic(err)
		}
		res := safeResolve(root, e.doc, "", e.vars)
		hasErr := res["errors"] != nil
		o.Count("reflection required-argument cases")
		o.Emit(Case{
			Term:       N("c10r", S(e.doc), B(e.refuse != "")),
			Obs:        N("obs", B(len(calls) > 0), B(hasErr)),
			Meta:       map[string]interface{}{"doc": e.doc, "response": fmt.Sprintf("%v", res), "calls": fmt.Sprintf("%v", calls)},
			Nontrivial: true,
		})
	}
}
