package main

// splitmix64: every random choice of a run derives from one state (VERIF_SEED).
type Rng struct{ s uint64 }

// NewRng scrambles the seed first: with a state that is linear in the seed, the stream of seed k+1 would be
// the stream of seed k shifted by one draw, and sweeps over several VERIF_SEED values would revisit the same cases.
func NewRng(seed uint64) *Rng {
	z := seed + 0x9E3779B97F4A7C15
	z = (z ^ (z >> 30)) * 0xBF58476D1CE4E5B9
	z = (z ^ (z >> 27)) * 0x94D049BB133111EB
	return &Rng{s: z ^ (z >> 31)}
}
func (r *Rng) U64() uint64 {
	r.s += 0x9E3779B97F4A7C15
	z := r.s
	z = (z ^ (z >> 30)) * 0xBF58476D1CE4E5B9
	z = (z ^ (z >> 27)) * 0x94D049BB133111EB
	return z ^ (z >> 31)
}
func (r *Rng) Intn(n int) int {
	if n <= 0 {
		return 0
	}
	return int(r.U64() % uint64(n))
}
func (r *Rng) Bool() bool          { return r.U64()&1 == 1 }
func (r *Rng) Chance(pct int) bool { return r.Intn(100) < pct }
func (r *Rng) Fork() *Rng          { return NewRng(r.U64()) }
func Pick[X any](r *Rng, xs []X) X { return xs[r.Intn(len(xs))] }

// Perm returns a permutation of 0..n-1 (Fisher-Yates).
func (r *Rng) Perm(n int) []int {
	p := make([]int, n)
	for i := range p {
		p[i] = i
	}
	for i := n - 1; i > 0; i-- {
		j := r.Intn(i + 1)
		p[i], p[j] = p[j], p[i]
	}
	return p
}
