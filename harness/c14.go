package main

import (
	"errors"
	"fmt"
	"io"
	"strings"
	"time"

	"github.com/uhn/ggql/pkg/ggql"
)

// ---- C14: schema loading is all-or-nothing -----------------------------------------------------------

type c14Snapshot struct {
	sdl, intro, req string
}

func c14Snap(root *ggql.Root) c14Snapshot {
	res := safeResolve(root, introQuery, "", nil)
	r2 := safeResolve(root, `{ __typename }`, "", nil)
	return c14Snapshot{sdl: root.SDL(true, true), intro: canon(map[string]interface{}{"data": res["data"]}), req: canon(r2)}
}

// faultReader returns the bytes up to `at`, then an I/O error
type faultReader struct {
	data []byte
	at   int
	pos  int
}

func (f *faultReader) Read(p []byte) (int, error) {
	if f.pos >= f.at {
		return 0, errors.New("injected read fault")
	}
	if f.pos >= len(f.data) {
		return 0, io.EOF
	}
	p[0] = f.data[f.pos]
	f.pos++
	return 1, nil
}

func safeParseReader(root *ggql.Root, r io.Reader) (err error) {
	if leakedHangs >= 6 {
		return fmt.Errorf("hang: parser watchdog exhausted")
	}
	done := make(chan error, 1)
	go func() {
		defer func() {
			if rc := recover(); rc != nil {
				done <- fmt.Errorf("panic: %v", rc)
			}
		}()
		done <- root.ParseReader(r)
	}()
	select {
	case err = <-done:
		return err
	case <-time.After(3 * time.Second):
		leakedHangs++
		return fmt.Errorf("hang: ParseReader did not return within 3 s")
	}
}

func c14Case(o *Out, r *Rng) {
	base := genSet(r, sdlOpts{defaults: true, dirUses: r.Chance(50), schemaBlk: false})
	root := newLoadRoot()
	control := newLoadRoot()
	if safeParse(root, base.sdl(true)) != nil || safeParse(control, base.sdl(true)) != nil {
		o.Count("base-rejected")
		return
	}
	before := c14Snap(root)
	var existingObjs, existingEnums []*sDef
	var names []T
	for _, d := range base.defs {
		if d.kind == "schema" {
			continue
		}
		names = append(names, S(d.name))
		if d.kind == "object" {
			existingObjs = append(existingObjs, d)
		}
		if d.kind == "enum" {
			existingEnums = append(existingEnums, d)
		}
	}
	// the failing document: valid content …
	var doc strings.Builder
	var acts []T
	nExt := 0
	definedRoot := ""
	add := func(text string, act T) { doc.WriteString(text); acts = append(acts, act) }
	n := 1 + r.Intn(4)
	for i := 0; i < n; i++ {
		switch c := r.Intn(12); {
		case c >= 10:
			// a type with the default name of an operation root the schema in force does not have
			rootName := Pick(r, []string{"Mutation", "Subscription"})
			taken := strings.Contains(doc.String(), "type "+rootName+" ")
			for _, d := range base.defs {
				taken = taken || d.name == rootName
			}
			if taken {
				continue
			}
			add(fmt.Sprintf("type %s { bump%d: Int }\n", rootName, i), N("define", S(rootName)))
			definedRoot = rootName
		case c < 3:
			add(fmt.Sprintf("enum NewE%d { A B }\n", i), N("define", S(fmt.Sprintf("NewE%d", i))))
		case c < 5:
			add(fmt.Sprintf("type NewT%d { a: Int }\n", i), N("define", S(fmt.Sprintf("NewT%d", i))))
		case c < 7:
			t := Pick(r, existingObjs)
			add(fmt.Sprintf("extend type %s { added%d: Int }\n", t.name, i), N("extend", S(t.name)))
			nExt++
		case c < 8 && len(existingEnums) > 0:
			e := Pick(r, existingEnums)
			add(fmt.Sprintf("extend enum %s { ADDED%d }\n", e.name, i), N("extend", S(e.name)))
			nExt++
		case c < 9:
			// a new type and an extension of it (touches nothing that exists)
			add(fmt.Sprintf("type NewX%d { a: Int }\nextend type NewX%d { b: Int }\n", i, i), N("define", S(fmt.Sprintf("NewX%d", i))))
			acts = append(acts, N("extend", S(fmt.Sprintf("NewX%d", i))))
			nExt++
		default:
			// a schema block that names another query root than the one in force
			var others []*sDef
			for _, t := range existingObjs {
				if t.name != "Query" {
					others = append(others, t)
				}
			}
			if len(others) == 0 {
				continue
			}
			t := Pick(r, others)
			add(fmt.Sprintf("schema { query: %s }\n", t.name), N("schema"))
		}
	}
	// … then one failure
	var fail T
	var ferr error
	class := ""
	switch r.Intn(5) {
	case 0:
		class = "syntax"
		doc.WriteString("type Broken { f Int }\n")
		fail = N("scan", I(int64(len(acts))))
		ferr = safeParse(root, doc.String())
	case 1:
		class = "undefined-reference"
		doc.WriteString("type Dangling { f: Nowhere }\n")
		fail = N("addTypes")
		ferr = safeParse(root, doc.String())
	case 2:
		class = "failed-extension"
		t := Pick(r, existingObjs)
		doc.WriteString(fmt.Sprintf("extend type %s { %s: Int }\n", t.name, t.fields[0].name))
		fail = N("extendAt", I(int64(nExt)))
		acts = append(acts, N("extend", S(t.name)))
		ferr = safeParse(root, doc.String())
	case 3:
		class = "validation"
		doc.WriteString("type __Reserved { a: Int }\n")
		acts = append(acts, N("define", S("__Reserved")))
		fail = N("validate")
		ferr = safeParse(root, doc.String())
	default:
		class = "reader-fault"
		text := doc.String() + "type Tail { a: Int }\n"
		at := r.Intn(len(text))
		// definitions completely scanned before the fault
		scanned := 0
		pos := 0
		for _, line := range strings.SplitAfter(doc.String(), "\n") {
			pos += len(line)
			// a definition is complete once its last byte before the newline has been delivered (readSchema assigns
			// root.schema as soon as the closing brace is consumed)
			if pos-1 <= at && line != "" {
				scanned++
			}
		}
		// `type NewX … extend type NewX …` is two lines for two acts: count lines = acts
		fail = N("scan", I(int64(scanned)))
		ferr = safeParseReader(root, &faultReader{data: []byte(text), at: at})
	}
	// two schema blocks in one document are a duplicate ("" is already in the schema): that is reported by addTypes,
	// before any extension is applied or any rule validated
	nSchema := 0
	for _, a := range acts {
		if a.Tag == "schema" {
			nSchema++
		}
	}
	if nSchema >= 2 && (class == "failed-extension" || class == "validation") {
		fail = N("addTypes")
	}
	if ferr == nil {
		o.Count("failing-document-accepted")
		return
	}
	if strings.HasPrefix(ferr.Error(), "hang") {
		o.Count("hang")
	}
	after := c14Snap(root)
	same := before == after
	// a later valid load behaves as if the failed one had never happened
	follow := "type Later { z: Int }\n"
	if definedRoot != "" && r.Bool() {
		follow = "type " + definedRoot + " { reset: Int }\n"
	}
	e1, e2 := safeParse(root, follow), safeParse(control, follow)
	laterSame := (e1 == nil) == (e2 == nil) && c14Snap(root) == c14Snap(control)
	o.Count("failure=" + class)
	diff := ""
	if !same {
		switch {
		case before.sdl != after.sdl:
			diff = "printed schema"
		case before.intro != after.intro:
			diff = "introspection"
		default:
			diff = "request"
		}
	}
	o.Emit(Case{
		Term:       N("c14", LS(names), LS(acts), fail),
		Obs:        N("obs", B(same && laterSame)),
		Meta:       map[string]interface{}{"failing_doc": doc.String(), "failure": class, "error": ferr.Error(), "differs_in": diff, "later_same": laterSame},
		Nontrivial: true,
	})
}

func init() {
	props["C14"] = func(o *Out, rng *Rng, tier string) {
		ggql.Sort = true
		defer func() { ggql.Sort = false }()
		n := 600
		if tier == "thorough" {
			n = 25000
		}
		for i := 0; i < n; i++ {
			c14Case(o, rng.Fork())
		}
		c14API(o)
		c14Loads(o)
	}
}

// ---- failing AddTypes calls (the other way types get into a root) ---------------------------------------
//
// Fixed table, every run: a root loaded from SDL (its schema implied by the Query type), then one AddTypes call
// that must fail, observed like a failing load: printed schema, introspection (operation root types included),
// a request, and a later valid load compared with a control root that never saw the failing call.

func c14Ref(n string) ggql.Type { return &ggql.Ref{Base: ggql.Base{N: n}} }

func c14Obj(name string, fields ...[2]string) *ggql.Object {
	o := &ggql.Object{Base: ggql.Base{N: name}}
	for _, f := range fields {
		_ = o.AddField(&ggql.FieldDef{Base: ggql.Base{N: f[0]}, Type: c14Ref(f[1])})
	}
	return o
}

func c14SchemaType(roots ...[2]string) *ggql.Schema {
	s := &ggql.Schema{}
	for _, r := range roots {
		_ = s.AddField(&ggql.FieldDef{Base: ggql.Base{N: r[0]}, Type: c14Ref(r[1])})
	}
	return s
}

var c14APITable = []struct {
	name  string
	types func() []ggql.Type
}{
	{"schema-naming-another-query-root+empty-object", func() []ggql.Type {
		return []ggql.Type{c14SchemaType([2]string{"query", "Alt"}), c14Obj("Empty")}
	}},
	{"schema-naming-another-query-root+undefined-reference", func() []ggql.Type {
		return []ggql.Type{c14SchemaType([2]string{"query", "Alt"}), c14Obj("Bad", [2]string{"x", "Zork"})}
	}},
	{"schema-with-mutation-root+duplicate-type", func() []ggql.Type {
		return []ggql.Type{c14SchemaType([2]string{"query", "Query"}, [2]string{"mutation", "Alt"}), c14Obj("Alt", [2]string{"c", "Int"})}
	}},
	{"new-types+duplicate-of-an-existing-type", func() []ggql.Type {
		return []ggql.Type{c14Obj("Fresh", [2]string{"f", "Int"}), c14Obj("Alt", [2]string{"c", "Int"})}
	}},
	{"default-mutation-root+empty-object", func() []ggql.Type {
		return []ggql.Type{c14Obj("Mutation", [2]string{"set", "Int"}), c14Obj("Empty")}
	}},
	{"default-subscription-root+undefined-reference", func() []ggql.Type {
		return []ggql.Type{c14Obj("Subscription", [2]string{"on", "Int"}), c14Obj("Bad", [2]string{"x", "Zork"})}
	}},
	{"enum-without-values", func() []ggql.Type {
		return []ggql.Type{c14Obj("Fresh", [2]string{"f", "Int"}), &ggql.Enum{Base: ggql.Base{N: "E"}}}
	}},
	{"union-without-members", func() []ggql.Type {
		return []ggql.Type{c14Obj("Fresh", [2]string{"f", "Alt"}), &ggql.Union{Base: ggql.Base{N: "U"}}}
	}},
}

func c14API(o *Out) {
	const first = "type Query { a: Int alt: Alt }\ntype Alt { b: Int }\n"
	const follow = "type Mutation { set: Int }\ntype Later { z: Alt }\n"
	for _, e := range c14APITable {
		root, control := newLoadRoot(), newLoadRoot()
		if safeParse(root, first) != nil || safeParse(control, first) != nil {
			panic("c14 api base")
		}
		before := c14Snap(root)
		var ferr error
		func() {
			defer func() {
				if rc := recover(); rc != nil {
					ferr = fmt.Errorf("panic: %v", rc)
				}
			}()
			ferr = root.AddTypes(e.types()...)
		}()
		if ferr == nil {
			o.Count("failing-AddTypes-accepted")
			continue
		}
		after := c14Snap(root)
		same := before == after
		e1, e2 := safeParse(root, follow), safeParse(control, follow)
		laterSame := (e1 == nil) == (e2 == nil) && c14Snap(root) == c14Snap(control)
		diff := ""
		if !same {
			switch {
			case before.sdl != after.sdl:
				diff = "printed schema"
			case before.intro != after.intro:
				diff = "introspection"
			default:
				diff = "request"
			}
		}
		o.Count("failure=AddTypes")
		o.Emit(Case{
			Term:       N("c14api", A(e.name)),
			Obs:        N("obs", B(same && laterSame)),
			Meta:       map[string]interface{}{"call": "AddTypes: " + e.name, "error": ferr.Error(), "differs_in": diff, "later_same": laterSame},
			Nontrivial: true,
		})
	}
}

// ---- failing loads that extend the schema of a root whose schema is implied -----------------------------
//
// Same observation as the AddTypes table (snapshot before / after, a request, a later valid load against a control
// root), for SDL documents: the failing document defines an operation root type the implied schema lacks and
// extends the schema, and fails afterwards.  Fixed table, every run.

var c14LoadTable = []struct{ name, doc string }{
	{"extend-schema-subscription+later-duplicate-field", "type Mutation { set: Int }\ntype Subby { s: Int }\nextend schema { subscription: Subby }\nextend type Query { a: Int }\n"},
	{"extend-schema-mutation+later-duplicate-field", "type Mut { set: Int }\nextend schema { mutation: Mut }\nextend type Query { a: Int }\n"},
	{"default-mutation-type+extend-schema-directive+undefined-reference", "type Mutation { set: Int }\ndirective @x on SCHEMA\nextend schema @x\ntype Bad { x: Zork }\n"},
	{"default-subscription-type+extend-schema-subscription-twice", "type Subscription { on: Int }\ntype Subby { s: Int }\nextend schema { subscription: Subby }\n"},
	{"new-implementer-of-an-interface+undefined-reference", "type Ghost implements Node { id: ID }\ntype Bad { x: Zork }\n"},
	{"new-implementer-of-an-interface+empty-object", "type Ghost implements Node { id: ID }\ntype Empty { }\n"},
	{"new-implementer-of-an-interface+interface-field-missing", "type Ghost implements Node { id: ID }\ntype Half implements Node { x: Int }\n"},
	{"extend-type-implements+empty-object", "extend type Song implements Node\ntype Empty { }\n"},
	{"new-union-of-existing-types+undefined-reference", "union Either = Alt | Song\ntype Bad { x: Zork }\n"},
	{"extend-schema+empty-object", "type Mutation { set: Int }\ntype Subby { s: Int }\nextend schema { subscription: Subby }\ntype Empty { }\n"},
}

func c14Loads(o *Out) {
	const first = "interface Node { id: ID }\ntype Query { a: Int alt: Alt node: Node }\ntype Alt implements Node { id: ID b: Int }\ntype Song { id: ID t: String }\n"
	const follow = "type Mutation { set: Int }\ntype Later { z: Alt }\n"
	for _, e := range c14LoadTable {
		root, control := newLoadRoot(), newLoadRoot()
		if safeParse(root, first) != nil || safeParse(control, first) != nil {
			panic("c14 load base")
		}
		before := c14Snap(root)
		ferr := safeParse(root, e.doc)
		if ferr == nil {
			o.Count("failing-load-accepted")
			continue
		}
		after := c14Snap(root)
		same := before == after
		e1, e2 := safeParse(root, follow), safeParse(control, follow)
		laterSame := (e1 == nil) == (e2 == nil) && c14Snap(root) == c14Snap(control)
		diff := ""
		if !same {
			switch {
			case before.sdl != after.sdl:
				diff = "printed schema"
			case before.intro != after.intro:
				diff = "introspection"
			default:
				diff = "request"
			}
		}
		o.Count("failure=load-extending-an-implied-schema")
		o.Emit(Case{
			Term:       N("c14api", A("load:"+e.name)),
			Obs:        N("obs", B(same && laterSame)),
			Meta:       map[string]interface{}{"call": "ParseString: " + e.doc, "error": ferr.Error(), "differs_in": diff, "later_same": laterSame},
			Nontrivial: true,
		})
	}
}
