package main

import (
	"encoding/hex"
	"fmt"
	"strings"
)

// ---- C01: response data is exactly what the request selected ---------------------------------------

func walkCase(o *Out, r *Rng, prop string, opts docOpts, mutate func(*Rng, *gSchema, *gGraph, *gDoc) string) {
	s := genSchema(r)
	g := genGraph(r, s)
	d := genDoc(r, s, opts)
	class := ""
	if mutate != nil {
		class = mutate(r, s, g, d)
	}
	root, w, qi := newWorld(s, g)
	gSharedErr = prop == "C06" && r.Chance(40)
	defer func() { gSharedErr = false }()
	if gSharedErr {
		o.Count("failing resolvers return one shared *ggql.Error")
		gSentinelErr.Path, gSentinelErr.Line, gSentinelErr.Column = nil, 0, 0
	}
	opName := ""
	switch c := r.Intn(10); {
	case c < 6:
		if len(d.ops) > 1 || d.ops[0].name != "" {
			opName = Pick(r, d.ops).name
		}
	case c < 8:
		opName = ""
	default:
		if opts.unknownOp {
			opName = "Zzz"
		} else if len(d.ops) > 1 {
			opName = d.ops[0].name
		}
	}
	*w.calls = nil
	res := safeResolve(root, d.text(), opName, d.vars)
	obs := respTerm(res, *w.calls)
	// the same request again on the same root and the same data graph: a read-only request must leave both as
	// they were, so the answer is the same (the model is stateless; a difference is a mismatch)
	*w.calls = nil
	res2 := safeResolve(root, d.text(), opName, d.vars)
	if obs2 := respTerm(res2, *w.calls); obs2.String() != obs.String() {
		obs = N("rerun-differs", obs, obs2)
		o.Count("rerun-differs")
	}
	o.Count(fmt.Sprintf("ops=%d", len(d.ops)))
	o.Count(fmt.Sprintf("frags=%d", len(d.frags)))
	if opts.collisions {
		o.Count("collisions-allowed")
	}
	if opts.abstract {
		o.Count("abstract-conditions")
	}
	if class != "" {
		o.Count("class=" + class)
	}
	if opName == "Zzz" {
		o.Count("unknown-op-name")
	}
	o.Emit(Case{
		Term:       N("walk", s.term(), g.term(), d.opsTerm(), S(opName), LS(d.vt), I(int64(qi))),
		Obs:        obs,
		Meta:       map[string]interface{}{"schema": s.sdl(), "doc": d.text(), "op": opName, "vars": d.vars, "response": fmt.Sprint(res), "class": class},
		Nontrivial: true,
	})
}

// walkReuseCase parses one document once and resolves it several times, changing the data graph (lists
// rotated, references re-drawn) and the supplied Boolean variables between the calls.  Each call is one
// case for the stateless walk model with the graph and variables of that call: whatever the first call
// leaves behind in the parsed request or in the data shows as a disagreement on a later call.
func walkReuseCase(o *Out, r *Rng, opts docOpts, calls int) {
	s := genSchema(r)
	g := genGraph(r, s)
	d := genDoc(r, s, opts)
	root, w, qi := newWorld(s, g)
	exe, err := root.ParseExecutableString(d.text())
	if err != nil {
		return
	}
	opName := ""
	if len(d.ops) > 1 || d.ops[0].name != "" {
		opName = d.ops[0].name
	}
	for k := 0; k < calls; k++ {
		if k > 0 {
			// change the data: rotate lists, re-draw some references among nodes of the same static position
			for _, n := range g.nodes {
				for _, fn := range n.order {
					v := n.fields[fn].val
					if v.kind == "list" && len(v.list) > 1 {
						nv := &gDVal{kind: "list", list: append(append([]*gDVal{}, v.list[1:]...), v.list[0])}
						n.fields[fn].val = nv
					}
				}
			}
			w.lists = nil
			// flip the supplied Boolean variables
			for i, vt := range d.vt {
				name := string(mustUnhex(vt.Args[0].Atom))
				if cur, ok := d.vars[name].(bool); ok {
					d.vars[name] = !cur
					d.vt[i] = N("v", S(name), B(!cur))
				}
			}
		}
		*w.calls = nil
		vars := map[string]interface{}{}
		for kk, vv := range d.vars {
			vars[kk] = vv
		}
		res := safeResolveExe(root, exe, opName, vars)
		o.Count("reuse-call")
		o.Emit(Case{
			Term:       N("walk", s.term(), g.term(), d.opsTerm(), S(opName), LS(append([]T{}, d.vt...)), I(int64(qi))),
			Obs:        respTerm(res, *w.calls),
			Meta:       map[string]interface{}{"schema": s.sdl(), "doc": d.text(), "op": opName, "vars": vars, "response": fmt.Sprint(res), "class": fmt.Sprintf("parsed-once call %d", k)},
			Nontrivial: true,
		})
	}
}

func mustUnhex(a string) []byte {
	b, _ := hex.DecodeString(strings.TrimPrefix(a, "x"))
	return b
}

func init() {
	props["C01"] = func(o *Out, rng *Rng, tier string) {
		n := 2500
		if tier == "thorough" {
			n = 100000
		}
		for i := 0; i < n; i++ {
			r := rng.Fork()
			walkCase(o, r, "C01", docOpts{collisions: r.Chance(30), abstract: r.Chance(35), maxDepth: 4, unknownOp: true, anonAmongOthers: true, nestedFrags: r.Chance(45)}, nil)
		}
		for i := 0; i < n/10; i++ {
			r := rng.Fork()
			walkReuseCase(o, r, docOpts{collisions: false, abstract: r.Chance(35), maxDepth: 3}, 3)
		}
	}
}
