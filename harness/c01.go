package main

import "fmt"

// ---- C01: response data is exactly what the request selected ---------------------------------------

func walkCase(o *Out, r *Rng, prop string, opts docOpts, mutate func(*Rng, *gSchema, *gGraph, *gDoc) string) {
	s := genSchema(r)
	g := genGraph(r, s)
	d := genDoc(r, s, opts)
	class := ""
	if mutate != nil {
		class = mutate(r, s, g, d)
	}
	root, w, qi := newWorld(s, g)
	opName := ""
	switch c := r.Intn(10); {
	case c < 6:
		if len(d.ops) > 1 || d.ops[0].name != "" {
			opName = Pick(r, d.ops).name
		}
	case c < 8:
		opName = ""
	default:
		if opts.unknownOp {
			opName = "Zzz"
		} else if len(d.ops) > 1 {
			opName = d.ops[0].name
		}
	}
	*w.calls = nil
	res := safeResolve(root, d.text(), opName, d.vars)
	o.Count(fmt.Sprintf("ops=%d", len(d.ops)))
	o.Count(fmt.Sprintf("frags=%d", len(d.frags)))
	if opts.collisions {
		o.Count("collisions-allowed")
	}
	if opts.abstract {
		o.Count("abstract-conditions")
	}
	if class != "" {
		o.Count("class=" + class)
	}
	if opName == "Zzz" {
		o.Count("unknown-op-name")
	}
	o.Emit(Case{
		Term:       N("walk", s.term(), g.term(), d.opsTerm(), S(opName), LS(d.vt), I(int64(qi))),
		Obs:        respTerm(res, *w.calls),
		Meta:       map[string]interface{}{"schema": s.sdl(), "doc": d.text(), "op": opName, "vars": d.vars, "response": fmt.Sprint(res), "class": class},
		Nontrivial: true,
	})
}

func init() {
	props["C01"] = func(o *Out, rng *Rng, tier string) {
		n := 2500
		if tier == "thorough" {
			n = 100000
		}
		for i := 0; i < n; i++ {
			r := rng.Fork()
			walkCase(o, r, "C01", docOpts{collisions: r.Chance(30), abstract: r.Chance(35), maxDepth: 4, unknownOp: true}, nil)
		}
	}
}
