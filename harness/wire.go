package main

import (
	"encoding/hex"
	"fmt"
	"strings"
)

// T is a prefix term of the wire format (DESIGN.md Appendix B).
type T struct {
	Atom string
	Tag  string
	Args []T
	node bool
}

func A(s string) T              { return T{Atom: s} }
func N(tag string, args ...T) T { return T{Tag: tag, Args: args, node: true} }
func I(i int64) T               { return A(fmt.Sprintf("%d", i)) }
func B(b bool) T {
	if b {
		return A("true")
	}
	return A("false")
}
func S(s string) T  { return A("x" + hex.EncodeToString([]byte(s))) }
func L(ts ...T) T   { return N("l", ts...) }
func LS(ts []T) T   { return N("l", ts...) }
func (t T) String() string {
	if !t.node {
		return t.Atom
	}
	var b strings.Builder
	t.write(&b)
	return b.String()
}
func (t T) write(b *strings.Builder) {
	if !t.node {
		b.WriteString(t.Atom)
		return
	}
	b.WriteByte('(')
	b.WriteString(t.Tag)
	for _, a := range t.Args {
		b.WriteByte(' ')
		a.write(b)
	}
	b.WriteByte(')')
}
