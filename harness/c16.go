package main

import (
	"fmt"
	"strings"
	"time"

	"github.com/uhn/ggql/pkg/ggql"
)

// ---- C16: a schema means the same however its definitions are ordered or split ---------------------

const introQuery = `{ __schema { queryType { name } mutationType { name } subscriptionType { name }
 types { kind name description
  fields(includeDeprecated: true) { name description isDeprecated deprecationReason
    args { name description defaultValue type { kind name ofType { kind name ofType { kind name ofType { kind name } } } } }
    type { kind name ofType { kind name ofType { kind name ofType { kind name } } } } }
  interfaces { name } possibleTypes { name }
  enumValues(includeDeprecated: true) { name description isDeprecated deprecationReason }
  inputFields { name description defaultValue type { kind name ofType { kind name ofType { kind name } } } } }
 directives { name description locations args { name defaultValue type { kind name ofType { kind name } } } } } }`

type dummyNode struct{}

func (d *dummyNode) Resolve(f *ggql.Field, args map[string]interface{}) (interface{}, error) {
	return nil, nil
}

func newLoadRoot() *ggql.Root { return ggql.NewRoot(&gRootObj{q: &dummyNode{}}) }

func loadDocs(docs []string) (*ggql.Root, error) {
	root := newLoadRoot()
	for _, d := range docs {
		if err := safeParse(root, d); err != nil {
			return root, err
		}
	}
	return root, nil
}

var leakedHangs int

// safeParse runs ParseString with recover and a watchdog: the SDL parser can loop forever (D01); the
// spinning goroutine is abandoned (it cannot be killed) and the call reported as a hang.  After a few
// abandoned goroutines no further parses are attempted in this process.
func safeParse(root *ggql.Root, doc string) (err error) {
	if leakedHangs >= 6 {
		return fmt.Errorf("hang: parser watchdog exhausted")
	}
	done := make(chan error, 1)
	go func() {
		defer func() {
			if r := recover(); r != nil {
				done <- fmt.Errorf("panic: %v", r)
			}
		}()
		done <- root.ParseString(doc)
	}()
	select {
	case err = <-done:
		return err
	case <-time.After(3 * time.Second):
		leakedHangs++
		return fmt.Errorf("hang: ParseString did not return within 3 s")
	}
}

// sortedIntro: introspection result with every list sorted by a canonical rendering (for arrangements
// that legitimately reorder members)
func sortLists(v interface{}) interface{} {
	switch t := v.(type) {
	case []interface{}:
		out := make([]interface{}, len(t))
		keys := make([]string, len(t))
		for i, x := range t {
			out[i] = sortLists(x)
			keys[i] = canon(out[i])
		}
		idx := make([]int, len(t))
		for i := range idx {
			idx[i] = i
		}
		for i := 1; i < len(idx); i++ {
			for j := i; j > 0 && keys[idx[j]] < keys[idx[j-1]]; j-- {
				idx[j], idx[j-1] = idx[j-1], idx[j]
			}
		}
		res := make([]interface{}, len(t))
		for i, k := range idx {
			res[i] = out[k]
		}
		return res
	case map[string]interface{}:
		out := map[string]interface{}{}
		for k, x := range t {
			out[k] = sortLists(x)
		}
		return out
	}
	return v
}

func rankOf(d *sDef) int {
	switch d.kind {
	case "schema":
		return 1
	case "object":
		switch d.name {
		case "Query":
			return 2
		case "Mutation":
			return 3
		case "Subscription":
			return 4
		}
		return 5
	case "input":
		return 6
	case "union":
		return 7
	case "interface":
		return 8
	case "enum":
		return 9
	case "scalar":
		return 10
	case "directive":
		return 11
	}
	return 0
}

func defsTerm(ds []*sDef) T {
	var ts []T
	for _, d := range ds {
		ts = append(ts, N("def", I(int64(rankOf(d))), S(d.name)))
	}
	return LS(ts)
}

type c16Base struct {
	ok    bool
	sdl   string
	intro interface{}
}

func c16Observe(docs []string) c16Base {
	root, err := loadDocs(docs)
	b := c16Base{ok: err == nil}
	if b.ok {
		b.sdl = root.SDL(false, true)
		res := safeResolve(root, introQuery, "", nil)
		// the data part only: error paths carry list indexes, which legitimately move with member order
		// (that introspection reports errors at all for list / object default values is C17's D52)
		b.intro = map[string]interface{}{"data": res["data"], "failed": res["data"] == nil}
	}
	return b
}

func c16Case(o *Out, r *Rng) {
	set := genSet(r, sdlOpts{defaults: true, dirUses: r.Chance(60), schemaBlk: r.Chance(30)})
	base := c16Observe([]string{set.sdl(true)})
	hasSchemaBlock := false
	for _, d := range set.defs {
		if d.kind == "schema" {
			hasSchemaBlock = true
		}
	}
	var emit func(kind string, docsDefs [][]*sDef, docs []string, modOrder bool)
	emitB := func(base c16Base, kind string, docsDefs [][]*sDef, docs []string, modOrder bool) {
		a := c16Observe(docs)
		sdlSame := a.ok == base.ok && (!a.ok || canonSDL(a.sdl, false) == canonSDL(base.sdl, false))
		sdlSorted := a.ok == base.ok && (!a.ok || canonSDL(a.sdl, true) == canonSDL(base.sdl, true))
		introSame := a.ok == base.ok && (!a.ok || canon(a.intro) == canon(base.intro))
		introSorted := a.ok == base.ok && (!a.ok || canon(sortLists(a.intro)) == canon(sortLists(base.intro)))
		if modOrder {
			sdlSame, introSame = sdlSorted, introSorted
		}
		diff := ""
		if a.ok && base.ok && !introSame {
			x, y := canon(sortLists(a.intro)), canon(sortLists(base.intro))
			i := 0
			for i < len(x) && i < len(y) && x[i] == y[i] {
				i++
			}
			lo := i - 200
			if lo < 0 {
				lo = 0
			}
			hx, hy := i+200, i+200
			if hx > len(x) {
				hx = len(x)
			}
			if hy > len(y) {
				hy = len(y)
			}
			diff = "ARR: " + x[lo:hx] + "\nBASE: " + y[lo:hy]
		}
		var dt []T
		for _, ds := range docsDefs {
			dt = append(dt, defsTerm(ds))
		}
		o.Count("arrangement=" + kind)
		o.Count(fmt.Sprintf("loads=%d", len(docs)))
		o.Emit(Case{
			Term:       N("c16", A(kind), LS(dt), B(base.ok), B(hasSchemaBlock)),
			Obs:        N("obs", B(a.ok), B(sdlSame), B(introSame)),
			Meta:       map[string]interface{}{"arrangement": kind, "docs": docs, "base_ok": base.ok, "intro_diff": diff},
			Nontrivial: true,
		})
	}
	emit = func(kind string, docsDefs [][]*sDef, docs []string, modOrder bool) {
		emitB(base, kind, docsDefs, docs, modOrder)
	}
	// a set that is ill-formed only across definitions: an interface extended with a field its implementers lack.
	// One document and the split "everything, then the extension" must both be refused.
	if r.Chance(35) {
		for _, d := range set.defs {
			if d.kind != "object" || len(d.ifaces) == 0 {
				continue
			}
			ext := fmt.Sprintf("extend interface %s { extraC16: String }\n", d.ifaces[0])
			whole := set.sdl(true) + ext
			b2 := c16Observe([]string{whole})
			o.Count("cross-definition-ill-formed")
			emitB(b2, "split", [][]*sDef{set.defs, {}}, []string{set.sdl(true), ext}, false)
			break
		}
	}
	// permutations of the one-document form
	for k := 0; k < 3; k++ {
		perm := append([]*sDef{}, set.defs...)
		for i := len(perm) - 1; i > 0; i-- {
			j := r.Intn(i + 1)
			perm[i], perm[j] = perm[j], perm[i]
		}
		var b strings.Builder
		for _, d := range perm {
			b.WriteString(d.sdl(true, false))
		}
		emit("perm", [][]*sDef{perm}, []string{b.String()}, false)
	}
	// partitions that keep references resolvable: leaf definitions may come in an earlier load
	for k := 0; k < 2; k++ {
		var first, second []*sDef
		for _, d := range set.defs {
			leaf := d.kind == "directive" || d.kind == "enum" || d.kind == "scalar"
			if leaf && r.Chance(60) {
				first = append(first, d)
			} else {
				second = append(second, d)
			}
		}
		// inputs move to the first load only together with everything they reference and as a closed group
		if r.Bool() {
			var rest []*sDef
			moved := map[string]bool{}
			for _, d := range first {
				moved[d.name] = true
			}
			for _, d := range second {
				if d.kind == "input" {
					ok := true
					for _, f := range d.inFields {
						bn := f.t.baseName()
						if x := set.by[bn]; x != nil && !moved[bn] {
							ok = false
						}
						for _, du := range f.dirs {
							if !moved[du.name] {
								ok = false
							}
						}
					}
					for _, du := range d.dirs {
						if !moved[du.name] {
							ok = false
						}
					}
					if ok {
						first = append(first, d)
						moved[d.name] = true
						continue
					}
				}
				rest = append(rest, d)
			}
			second = rest
		}
		// uses of @tag / enum defaults in the first load need their definitions there too
		need := map[string]bool{}
		for _, d := range first {
			for _, du := range d.dirs {
				need[du.name] = true
			}
			for _, v := range d.values {
				for _, du := range v.dirs {
					need[du.name] = true
				}
			}
		}
		if need["tag"] {
			var rest []*sDef
			for _, d := range second {
				if d.kind == "directive" && d.name == "tag" {
					first = append([]*sDef{d}, first...)
				} else {
					rest = append(rest, d)
				}
			}
			second = rest
		}
		if len(first) == 0 || len(second) == 0 {
			continue
		}
		render := func(ds []*sDef) string {
			var b strings.Builder
			for _, d := range ds {
				b.WriteString(d.sdl(true, false))
			}
			return b.String()
		}
		emit("split", [][]*sDef{first, second}, []string{render(first), render(second)}, false)
	}
	// members moved into extend blocks
	{
		var b, x strings.Builder
		moved := false
		multiInput := false
		for _, d := range set.defs {
			cp := *d
			var ext *sDef
			switch d.kind {
			case "object", "interface":
				if len(d.fields) > 1 && r.Chance(50) && d.kind == "object" {
					k := 1 + r.Intn(len(d.fields)-1)
					// interface fields stay in the base block
					cp.fields = d.fields[:k]
					ext = &sDef{kind: d.kind, name: d.name, fields: d.fields[k:]}
				}
			case "enum":
				if len(d.values) > 1 && r.Chance(50) {
					k := 1 + r.Intn(len(d.values)-1)
					cp.values = d.values[:k]
					ext = &sDef{kind: "enum", name: d.name, values: d.values[k:]}
				}
			case "union":
				if len(d.members) > 1 && r.Chance(50) {
					cp.members = d.members[:1]
					ext = &sDef{kind: "union", name: d.name, members: d.members[1:]}
				}
			case "input":
				if len(d.inFields) > 1 && r.Chance(50) {
					cp.inFields = d.inFields[:1]
					ext = &sDef{kind: "input", name: d.name, inFields: d.inFields[1:]}
					if len(d.inFields) > 2 {
						multiInput = true
					}
				}
			}
			b.WriteString(cp.sdl(true, false))
			if ext != nil {
				moved = true
				x.WriteString(ext.sdl(true, true))
			}
		}
		if moved {
			emit("extend", [][]*sDef{set.defs}, []string{b.String() + x.String()}, true)
			// member order: the moved members are a suffix of each member list and an extension appends, so
			// without sorting the lists the extended arrangement must print and introspect exactly like the inline one
			// (ggql.Sort, which is on here, orders the keys of object literals only, not members)
			b0, a0 := c16Observe([]string{set.sdl(true)}), c16Observe([]string{b.String() + x.String()})
			orderSame := a0.ok == b0.ok && (!a0.ok || (a0.sdl == b0.sdl && canon(a0.intro) == canon(b0.intro)))
			o.Count("arrangement=extend-order")
			if multiInput {
				o.Count("extend-order: input type extended by two or more fields")
			}
			o.Emit(Case{
				Term:       N("c16o", B(multiInput), B(b0.ok)),
				Obs:        N("obs", B(a0.ok), B(orderSame)),
				Meta:       map[string]interface{}{"arrangement": "extend-order", "docs": []string{b.String() + x.String()}, "inline_sdl": b0.sdl, "extended_sdl": a0.sdl, "sdl_same": a0.sdl == b0.sdl, "intro_diff": firstDiff(canon(a0.intro), canon(b0.intro))},
				Nontrivial: true,
			})
		}
	}
}

func init() {
	props["C16"] = func(o *Out, rng *Rng, tier string) {
		// printed default values must not depend on Go's map iteration order
		ggql.Sort = true
		tagUseNull = true
		defer func() { ggql.Sort = false; tagUseNull = false }()
		n := 500
		if tier == "thorough" {
			n = 20000
		}
		for i := 0; i < n; i++ {
			c16Case(o, rng.Fork())
		}
		c16FixedTable(o)
	}
}

func firstDiff(x, y string) string {
	i := 0
	for i < len(x) && i < len(y) && x[i] == y[i] {
		i++
	}
	if i == len(x) && i == len(y) {
		return ""
	}
	lo, hx, hy := i-150, i+150, i+150
	if lo < 0 {
		lo = 0
	}
	if hx > len(x) {
		hx = len(x)
	}
	if hy > len(y) {
		hy = len(y)
	}
	return "A: " + x[lo:hx] + "\nB: " + y[lo:hy]
}

// ---- fixed table: arrangements that used to disagree --------------------------------------------------
//
// Each entry is one definition set arranged as one document and as successive loads; both arrangements must be
// all accepted or all rejected and, when accepted, define the same schema.  (Found by a sub-agent looking for a
// C16 seed: the parser only knows the definitions of *earlier* loads, so whatever it decides while scanning —
// filling in directive-argument defaults, binding `@foo` to a type named foo, needing a schema to extend —
// depended on the split.)
var c16Table = []struct {
	name string
	one  string
	many []string
}{
	{"required-directive-argument-left-out",
		"directive @need(n: Int!) on OBJECT\ntype Query @need { a: Int }",
		[]string{"directive @need(n: Int!) on OBJECT", "type Query @need { a: Int }"}},
	{"required-directive-argument-left-out-directive-last",
		"type Query @need { a: Int }\ndirective @need(n: Int!) on OBJECT",
		[]string{"directive @need(n: Int!) on OBJECT", "type Query @need { a: Int }"}},
	{"required-directive-argument-given",
		"directive @need(n: Int!) on OBJECT\ntype Query @need(n: 2) { a: Int }",
		[]string{"directive @need(n: Int!) on OBJECT", "type Query @need(n: 2) { a: Int }"}},
	{"directive-and-type-share-a-name",
		"directive @foo on OBJECT\ntype foo { b: Int }\ntype Query @foo { a: foo }",
		[]string{"directive @foo on OBJECT\ntype foo { b: Int }", "type Query @foo { a: foo }"}},
	{"directive-and-type-share-a-name-three-loads",
		"directive @foo on OBJECT\ntype foo { b: Int }\ntype Query @foo { a: foo }",
		[]string{"type foo { b: Int }", "directive @foo on OBJECT", "type Query @foo { a: foo }"}},
	{"repeated-union-member",
		"type Query { a: U }\ntype A { x: Int }\nunion U = A | A",
		[]string{"type Query { a: U }\ntype A { x: Int }\nunion U = A", "extend union U = A"}},
	{"extend-implied-schema",
		"type Query { a: Int }\ntype M { b: Int }\nextend schema { mutation: M }",
		[]string{"type Query { a: Int }\ntype M { b: Int }", "extend schema { mutation: M }"}},
	{"repeated-directive-on-a-type",
		"directive @m on OBJECT\ntype Query @m @m { a: Int }",
		[]string{"directive @m on OBJECT\ntype Query @m { a: Int }", "extend type Query @m"}},
	{"repeated-directive-on-a-type-one-document-extension",
		"directive @m on OBJECT\ntype Query @m @m { a: Int }",
		[]string{"directive @m on OBJECT\ntype Query @m { a: Int }\nextend type Query @m"}},
	{"implied-schema-root-not-an-object",
		"type Query { a: Int }\ninput In { x: Int }\nschema { query: Query mutation: In }",
		[]string{"type Query { a: Int }\ninput In { x: Int }", "extend schema { mutation: In }"}},
	{"extend-implied-schema-extension-first",
		"extend schema { mutation: M }\ntype Query { a: Int }\ntype M { b: Int }",
		[]string{"type M { b: Int }", "type Query { a: Int }", "extend schema { mutation: M }"}},
}

func c16FixedTable(o *Out) {
	for _, e := range c16Table {
		a, b := c16Observe([]string{e.one}), c16Observe(e.many)
		same := a.ok && b.ok && canonSDL(a.sdl, false) == canonSDL(b.sdl, false) && canon(a.intro) == canon(b.intro)
		o.Count("arrangement=fixed-table")
		o.Emit(Case{
			Term:       N("c16t", A(e.name)),
			Obs:        N("obs", B(a.ok), B(b.ok), B(same)),
			Meta:       map[string]interface{}{"arrangement": "fixed-table " + e.name, "docs": e.many, "one_document": e.one, "sdl_one": a.sdl, "sdl_many": b.sdl},
			Nontrivial: true,
		})
	}
}
