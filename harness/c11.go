package main

import (
	"fmt"
	"sort"
	"strings"

	"github.com/uhn/ggql/pkg/ggql"
)

// ---- C11: resolving does not change the parsed request ----------------------------------------------
//
// One document is parsed once and resolved with a sequence of variable maps; every call is compared
// with resolving a freshly parsed copy with the same variables, and the executable's printed form is
// compared before and after the sequence.

func c11Obs(rec *c04Rec, res map[string]interface{}) T {
	nerr := 0
	if ea, ok := res["errors"].([]interface{}); ok {
		nerr = len(ea)
	}
	_, hasData := res["data"]
	reqFailed := !hasData || res["data"] == nil
	if _, p := res["panic"]; p {
		nerr = -1
	}
	var kvs []T
	if rec.called {
		keys := make([]string, 0, len(rec.args))
		for k := range rec.args {
			keys = append(keys, k)
		}
		sort.Strings(keys)
		for _, k := range keys {
			kvs = append(kvs, N("kv", S(k), govToVal(rec.args[k], hintSet{})))
		}
	}
	if reqFailed && !rec.called {
		nerr = 1
	} else {
		reqFailed = false
	}
	return N("obs", B(reqFailed), B(rec.called), N("args", kvs...), I(int64(nerr)))
}

// deepCopy: the harness must not share slices / maps between calls (List.CoerceIn writes into the
// caller's slices); each call gets its own copy of the variable values
func deepCopy(v interface{}) interface{} {
	switch t := v.(type) {
	case []interface{}:
		out := make([]interface{}, len(t))
		for i, x := range t {
			out[i] = deepCopy(x)
		}
		return out
	case map[string]interface{}:
		out := map[string]interface{}{}
		for k, x := range t {
			out[k] = deepCopy(x)
		}
		return out
	}
	return v
}

func c11Case(o *Out, root *ggql.Root, rec *c04Rec, rng *Rng) {
	g := &c04Gen{rng: rng, hints: hintSet{}, vars: map[string]interface{}{}, allowVar: true, scalarDefaultsWhenNested: true}
	// arguments whose literals can nest variables: lists, input objects
	var cands []int
	for i, t := range c04ArgTypes {
		if t.kind == "list" || t.kind == "input" || (t.kind == "nn" && (t.base.kind == "list" || t.base.kind == "input")) || rng.Chance(15) {
			cands = append(cands, i)
		}
	}
	i := Pick(rng, cands)
	t := c04ArgTypes[i]
	field := fmt.Sprintf("q%d", i)
	v := g.value(t, 1)
	decl := []T{N("a", S("x"), t.term)}
	given := []T{N("kv", S("x"), v.term)}
	doc := "query Q"
	if len(g.vdefs) > 0 {
		doc += "(" + strings.Join(g.vdefs, ", ") + ")"
	}
	doc += " { " + field + "(x: " + v.lit + ") }"
	// the variable types, to generate further values of the same types
	type vd struct {
		name string
		t    *c04Type
	}
	// a sequence of variable maps: the first is the generator's; the others re-draw every variable
	ncalls := 2 + rng.Intn(4)
	var callVars []map[string]interface{}
	var callTerms []T
	callVars = append(callVars, g.vars)
	callTerms = append(callTerms, LS(g.sup))
	names := make([]string, 0, len(g.vars))
	for k := range g.vars {
		names = append(names, k)
	}
	sort.Strings(names)
	for c := 1; c < ncalls; c++ {
		m := map[string]interface{}{}
		var sup []T
		for _, n := range names {
			old := g.vars[n]
			var nv interface{} = old
			switch tv := old.(type) {
			case int64:
				nv = tv + int64(c)
			case int:
				nv = tv + c
			case int32:
				nv = tv + int32(c)
			case float64:
				nv = tv + float64(c)
			case string:
				nv = tv + fmt.Sprint(c)
			case bool:
				nv = !tv
			}
			if rng.Chance(15) {
				continue // omitted this time
			}
			m[n] = nv
			sup = append(sup, N("kv", S(n), govToVal(nv, g.hints)))
		}
		callVars = append(callVars, m)
		callTerms = append(callTerms, LS(sup))
	}
	exe, err := root.ParseExecutableString(doc)
	if err != nil {
		return
	}
	// fresh runs first: keep only sequences whose fresh calls all reach the resolver
	var fresh []T
	for _, vars := range callVars {
		rec.called, rec.args = false, nil
		res := safeResolve(root, doc, "", deepCopy(vars).(map[string]interface{}))
		if !rec.called {
			return
		}
		fresh = append(fresh, c11Obs(rec, res))
	}
	before := exe.String()
	var rs []T
	for ci, vars := range callVars {
		rec.called, rec.args = false, nil
		var res map[string]interface{}
		func() {
			defer func() {
				if r := recover(); r != nil {
					res = map[string]interface{}{"panic": fmt.Sprint(r)}
				}
			}()
			r, e := root.ResolveExecutable(exe, "", deepCopy(vars).(map[string]interface{}))
			res = r
			if res == nil {
				res = map[string]interface{}{"data": nil}
			}
			if e != nil {
				res["errors"] = ggql.FormErrorsResult(e)
			}
		}()
		rs = append(rs, N("r", c11Obs(rec, res), fresh[ci]))
	}
	after := exe.String()
	o.Count(fmt.Sprintf("calls=%d", ncalls))
	o.Count(fmt.Sprintf("vars=%d", len(names)))
	if before != after {
		o.Count("printed-form-changed")
	}
	o.Emit(Case{
		Term:       N("c11", c04InputsTerm(), LS(g.vdt), LS(decl), LS(given), LS(callTerms), g.hints.term()),
		Obs:        N("obs", LS(rs), B(before == after)),
		Meta:       map[string]interface{}{"doc": doc, "calls": fmt.Sprintf("%v", callVars), "printed_before": before, "printed_after": after},
		Nontrivial: len(names) > 0,
	})
}

func init() {
	props["C11"] = func(o *Out, rng *Rng, tier string) {
		rec := &c04Rec{}
		root := ggql.NewRoot(&c04Root{rec: rec})
		if err := root.ParseString(c04Schema()); err != nil {
			panic(err)
		}
		c04LoadDefaults(root)
		// the printed form must not depend on Go's map iteration order
		ggql.Sort = true
		defer func() { ggql.Sort = false }()
		n := 6000
		if tier == "thorough" {
			n = 250000
		}
		for i := 0; i < n; i++ {
			c11Case(o, root, rec, rng.Fork())
		}
		c11Args(o)
		c11Mutators(o) // (while ggql.Sort is on: the printed form of an object literal is compared)
		ggql.Sort = false
		// whole requests parsed once and resolved several times over changing data and variables
		for i := 0; i < n/12; i++ {
			r := rng.Fork()
			walkReuseCase(o, r, docOpts{collisions: false, abstract: r.Chance(35), maxDepth: 3}, 3)
		}
	}
}

// ---- resolvers that keep or change what they are handed ------------------------------------------------
//
// A resolver may store the argument it receives, or modify it: the value is its own.  A parsed request that
// is resolved again must hand out a value built from the literal anew, so every resolve of a reused request
// answers like a freshly parsed one.  (Deterministic table, every run: a cache of converted arguments on the
// request's syntax tree shows here and nowhere on a first resolve.)

type c11In struct {
	Name  string
	Likes int32
}

type c11MQ struct {
	kept []*c11In
}

func (q *c11MQ) Add(in *c11In) int32 {
	if in == nil {
		return -1
	}
	in.Likes++
	q.kept = append(q.kept, in)
	return in.Likes
}

func (q *c11MQ) AddMap(in map[string]interface{}) int32 {
	n, _ := in["likes"].(int32)
	in["likes"] = n + 1
	in["seen"] = true
	return n + 1
}

func (q *c11MQ) AddList(l []interface{}) int32 {
	if 0 < len(l) {
		if n, ok := l[0].(int32); ok {
			l[0] = n + 1
			return n + 1
		}
	}
	return 0
}

type c11MSchema struct {
	Query *c11MQ
}

const c11MSDL = `
type Query { add(in: SongIn): Int addMap(in: MapIn): Int addList(l: [Int]): Int }
input SongIn { name: String likes: Int = 1 }
input MapIn { name: String likes: Int = 1 seen: Boolean }
`

var c11MDocs = []string{
	`{ add(in: {name: "a"}) }`,
	`{ add(in: {name: "a", likes: 5}) }`,
	`{ addMap(in: {name: "a", likes: 5}) }`,
	`{ addMap(in: {name: "a"}) }`,
	`{ addList(l: [1, 2]) }`,
	`{ a: addMap(in: {likes: 1}) b: addList(l: [7]) c: add(in: {likes: 7}) }`,
	`query A { add(in: {name: "a"}) } query B { addList(l: [3]) }`,
	`query($n: String){ add(in: {name: $n, likes: 2}) addList(l: [4]) }`,
}

// the same resolvers behind the Resolver interface (arguments arrive in a map)
type c11MNode struct {
	q *c11MQ
}

func (n *c11MNode) Resolve(f *ggql.Field, args map[string]interface{}) (interface{}, error) {
	switch f.Name {
	case "query":
		return n, nil
	case "add":
		in, _ := args["in"].(*c11In)
		return n.q.Add(in), nil
	case "addMap":
		in, _ := args["in"].(map[string]interface{})
		if in == nil {
			return -1, nil
		}
		return n.q.AddMap(in), nil
	case "addList":
		l, _ := args["l"].([]interface{})
		return n.q.AddList(l), nil
	}
	return nil, nil
}

func c11MRoot(strategy string) *ggql.Root {
	var root *ggql.Root
	if strategy == "iface" {
		root = ggql.NewRoot(&c11MNode{q: &c11MQ{}})
	} else {
		root = ggql.NewRoot(&c11MSchema{Query: &c11MQ{}})
	}
	if err := root.ParseString(c11MSDL); err != nil {
		panic(err)
	}
	if err := root.RegisterType(&c11In{}, "SongIn"); err != nil {
		panic(err)
	}
	return root
}

func c11Mutators(o *Out) {
	for _, strategy := range []string{"reflect", "iface"} {
		c11MutatorsOn(o, strategy)
	}
}

func c11MutatorsOn(o *Out, strategy string) {
	for _, doc := range c11MDocs {
		op := ""
		if strings.Contains(doc, "query A") {
			op = "A"
		}
		root := c11MRoot(strategy)
		exe, err := root.ParseExecutableString(doc)
		if err != nil {
			panic("c11 mutator doc: " + err.Error())
		}
		before := exe.String()
		var same []T
		var detail []string
		for i := 0; i < 4; i++ {
			var vars map[string]interface{}
			if strings.Contains(doc, "$n") {
				vars = map[string]interface{}{"n": fmt.Sprint("v", i)}
			}
			fresh := canon(safeResolve(c11MRoot(strategy), doc, op, vars))
			var res map[string]interface{}
			func() {
				defer func() {
					if r := recover(); r != nil {
						res = map[string]interface{}{"panic": fmt.Sprint(r)}
					}
				}()
				r, e := root.ResolveExecutable(exe, op, vars)
				res = r
				if res == nil {
					res = map[string]interface{}{"data": nil}
				}
				if e != nil {
					res["errors"] = ggql.FormErrorsResult(e)
				}
			}()
			reused := canon(res)
			same = append(same, B(reused == fresh))
			detail = append(detail, fmt.Sprintf("resolve %d: reused %s fresh %s", i+1, reused, fresh))
		}
		o.Count("mutating-resolver documents")
		o.Emit(Case{
			Term:       N("c11m", S(strategy+" "+doc)),
			Obs:        N("obs", LS(same), B(exe.String() == before)),
			Meta:       map[string]interface{}{"doc": doc, "strategy": strategy, "resolves": detail},
			Nontrivial: true,
		})
	}
}

// ---- arguments out of order, undeclared, under lists and unions; a subscription request resolved twice ----
//
// The fields of a parsed request are shared by every object they are resolved on and by every resolve of the
// request.  Whatever is worked out about a field's arguments at the first use (their order, which of them are
// declared, the container type) and kept on the field shows as a second resolve that answers differently or as
// a changed printed form.  Deterministic table, every run; the expected observation is the property itself.

type c11AQ struct{}

func (q *c11AQ) Resolve(f *ggql.Field, args map[string]interface{}) (interface{}, error) {
	switch f.Name {
	case "query":
		return q, nil
	case "hello":
		return fmt.Sprintf("hi %v", canon(args)), nil
	case "items":
		return []interface{}{&c11AItem{"a"}, &c11AOther{"b"}, &c11AItem{"c"}}, nil
	}
	return nil, nil
}

type c11AItem struct{ id string }

func (i *c11AItem) Resolve(f *ggql.Field, args map[string]interface{}) (interface{}, error) {
	switch f.Name {
	case "id":
		return i.id, nil
	case "plain", "size":
		return fmt.Sprintf("item %s %v", f.Name, canon(args)), nil
	}
	return nil, nil
}

type c11AOther struct{ id string }

func (i *c11AOther) Resolve(f *ggql.Field, args map[string]interface{}) (interface{}, error) {
	switch f.Name {
	case "id":
		return i.id, nil
	case "size":
		return fmt.Sprintf("other size %v", canon(args)), nil
	}
	return nil, nil
}

const c11ASDL = `type Query { hello(a: Int, b: Int = 3, l: [Int]): String items: [Thing] }
union Thing = Item | Other
type Item { id: String plain(x: Int): String size(unit: String!): String }
type Other { id: String size: String }`

type c11ARQ struct{ Size int32 }

func (q *c11ARQ) Greet(name string, loud bool) string { return fmt.Sprint(name, loud) }
func (q *c11ARQ) Sum(a, b int32) int32                { return a + b }

type c11ARSchema struct{ Query *c11ARQ }

const c11ARSDL = `type Query { size(unit: String): Int greet(name: String!, loud: Boolean!): String sum(a: Int!, b: Int!): Int }`

func c11ARoot(strategy string) *ggql.Root {
	var root *ggql.Root
	if strategy == "reflect" {
		root = ggql.NewRoot(&c11ARSchema{Query: &c11ARQ{Size: 3}})
		if err := root.ParseString(c11ARSDL); err != nil {
			panic(err)
		}
		return root
	}
	root = ggql.NewRoot(&c11AQ{})
	if err := root.ParseString(c11ASDL); err != nil {
		panic(err)
	}
	if err := root.RegisterType(&c11AItem{}, "Item"); err != nil {
		panic(err)
	}
	if err := root.RegisterType(&c11AOther{}, "Other"); err != nil {
		panic(err)
	}
	return root
}

var c11ADocs = []struct{ strategy, doc string }{
	{"iface", `{ hello(b: 1, a: 2) }`},
	{"iface", `{ hello(l: [1], b: 1, a: 2) }`},
	{"iface", `{ hello(bogus: 1) }`},
	{"iface", `{ hello(a: 1, bogus: 1) }`},
	{"iface", `{ items { ... on Item { id plain(bogus: 1) } } }`},
	{"iface", `{ items { ... on Item { id plain(x: 1) } } }`},
	{"iface", `{ items { ... on Item { size(unit: "x") } ... on Other { size(unit: "x") } } }`},
	{"iface", `{ items { ... on Other { size(unit: "x") } ... on Item { size(unit: "x") } } }`},
	{"iface", `query A { hello(bogus: 1) } query B { hello(b: 2, a: 1) }`},
	{"reflect", `{ greet(loud: true, name: "x") }`},
	{"reflect", `{ sum(b: 1, a: 2) }`},
	{"reflect", `{ greet(name: "x", bogus: 1, loud: false) }`},
	{"reflect", `{ size(bogus: 1) }`},
	{"reflect", `{ size(unit: "cm") }`},
}

func c11Args(o *Out) {
	for _, e := range c11ADocs {
		ops := []string{""}
		if strings.Contains(e.doc, "query A") {
			ops = []string{"A", "B", "A"}
		}
		root := c11ARoot(e.strategy)
		exe, err := root.ParseExecutableString(e.doc)
		if err != nil {
			panic("c11 argument doc: " + err.Error())
		}
		before := exe.String()
		var same []T
		var detail []string
		for i := 0; i < 3; i++ {
			op := ops[i%len(ops)]
			fresh := canon(safeResolve(c11ARoot(e.strategy), e.doc, op, nil))
			reused := canon(safeResolveExe(root, exe, op, nil))
			same = append(same, B(reused == fresh))
			detail = append(detail, fmt.Sprintf("resolve %d: reused %s fresh %s", i+1, reused, fresh))
		}
		o.Count("argument-order / undeclared-argument documents")
		o.Emit(Case{
			Term:       N("c11a", S(e.strategy+" "+e.doc)),
			Obs:        N("obs", LS(same), B(exe.String() == before)),
			Meta:       map[string]interface{}{"doc": e.doc, "strategy": e.strategy, "resolves": detail, "printed_before": before, "printed_after": exe.String()},
			Nontrivial: true,
		})
	}
	// one parsed subscription request, subscribed with twice: both subscribers get what a subscriber of a
	// freshly parsed request gets, for every event
	for _, sel := range []string{"{ v w }", "{ w n { v } }", "{ v(x: 5) }"} {
		doc := "subscription S { listen " + sel + " }"
		deliver := func(reuse bool) (string, bool) {
			w := &c19World{msgs: map[int][]interface{}{}, fail: map[int]bool{}}
			root := ggql.NewRoot(&c19Root{w: w})
			if err := root.ParseString(c19Schema); err != nil {
				panic(err)
			}
			exe, err := root.ParseExecutableString(doc)
			if err != nil {
				panic("c11 subscription doc: " + err.Error())
			}
			before := exe.String()
			for i := 0; i < 2; i++ {
				if reuse {
					safeResolveExe(root, exe, "", nil)
				} else {
					safeResolve(root, doc, "", nil)
				}
				func() {
					defer func() { _ = recover() }()
					_, _ = root.AddEvent("t", &c19Event{base: 10 * (i + 1), word: "e", depth: 2})
				}()
			}
			return canon(map[string]interface{}{"0": w.msgs[0], "1": w.msgs[1]}), exe.String() == before
		}
		fresh, _ := deliver(false)
		reused, printed := deliver(true)
		o.Count("subscription request resolved twice")
		o.Emit(Case{
			Term:       N("c11a", S("subscribe twice "+doc)),
			Obs:        N("obs", LS([]T{B(reused == fresh)}), B(printed)),
			Meta:       map[string]interface{}{"doc": doc, "reused": reused, "fresh": fresh},
			Nontrivial: true,
		})
	}
}
