package main

import (
	"fmt"

	"github.com/uhn/ggql/pkg/ggql"
)

// ---- C06: each failure reported once at the right path, partial data kept -------------------------

// injectFailures makes 1..3 (node, field) resolver invocations fail, single or grouped errors, with or
// without a value returned next to the error.
func injectFailures(r *Rng, s *gSchema, g *gGraph, d *gDoc) string {
	n := 1 + r.Intn(3)
	grouped, withValue := false, false
	for i := 0; i < n; i++ {
		nd := Pick(r, g.nodes)
		if len(nd.order) == 0 {
			continue
		}
		f := Pick(r, nd.order)
		fr := nd.fields[f]
		fr.errs = 1
		if r.Chance(30) {
			fr.errs = 2 + r.Intn(2)
			grouped = true
		}
		if r.Chance(50) {
			fr.val = &gDVal{kind: "nil"}
			if r.Chance(40) {
				// the failing resolver hands back a nil that has a Go type (a nil map, as code that builds its
				// answer in a map variable does): still a null
				fr.val = &gDVal{kind: "tnilmap"}
			}
		} else if fr.val.kind != "nil" {
			withValue = true
		}
	}
	c := fmt.Sprintf("failures=%d", n)
	if grouped {
		c += ",grouped"
	}
	if withValue {
		c += ",value-with-error"
	}
	return c
}

func init() {
	props["C06"] = func(o *Out, rng *Rng, tier string) {
		n := 3000
		if tier == "thorough" {
			n = 120000
		}
		for i := 0; i < n; i++ {
			r := rng.Fork()
			walkCase(o, r, "C06", docOpts{collisions: false, abstract: false, maxDepth: 4, fewDirs: true}, injectFailures)
		}
	}
	props["C08"] = func(o *Out, rng *Rng, tier string) {
		// deterministic witness of first-come by-name binding of union members (D51)
		{
			mk := func() *ggql.Root {
				s := &gSchema{by: map[string]*gType{}}
				for _, l := range gLeafNames {
					s.types = append(s.types, &gType{kind: "leaf", name: l})
				}
				t0 := &gType{kind: "object", name: "T0", fields: []*gField{{name: "a", t: named("Int")}}}
				t1 := &gType{kind: "object", name: "T1", fields: []*gField{{name: "a", t: named("Int")}}}
				u := &gType{kind: "union", name: "U0", members: []string{"T0", "T1"}}
				q := &gType{kind: "object", name: "Query", fields: []*gField{{name: "us", t: listOf(named("U0"))}, {name: "t0", t: named("T0")}}}
				s.types = append(s.types, t0, t1, u, q)
				for _, t := range s.types {
					s.by[t.name] = t
				}
				g := &gGraph{byType: map[string][]int{}}
				g.nodes = []*gNode{
					{goType: "T0", fields: map[string]*gFieldRes{"a": {val: &gDVal{kind: "int", i: 1}}}, order: []string{"a"}},
					{goType: "T1", fields: map[string]*gFieldRes{"a": {val: &gDVal{kind: "int", i: 2}}}, order: []string{"a"}},
					{goType: "Query", fields: map[string]*gFieldRes{
						"us": {val: &gDVal{kind: "list", list: []*gDVal{{kind: "ref", ref: 1}}}},
						"t0": {val: &gDVal{kind: "ref", ref: 0}}}, order: []string{"us", "t0"}},
				}
				calls := []T{}
				w := &gWorld{g: g, calls: &calls}
				w.objs = []interface{}{&T0{gnode{w, 0}}, &T1{gnode{w, 1}}, &QueryNode{gnode{w, 2}}}
				root := ggql.NewRoot(&gRootObj{q: w.objs[2]})
				if err := root.ParseString(s.sdl()); err != nil {
					panic(err)
				}
				return root // nothing registered: by-name discovery
			}
			q := `{ us { ... on T1 { a } } }`
			cold := mk()
			r1 := canon(safeResolve(cold, q, "", nil))
			warm := mk()
			// bind T0 first through a union value of type T0? (no: through metaCheck of a T0 value)
			safeResolve(warm, `{ us { __typename } }`, "", nil)
			r2 := canon(safeResolve(warm, q, "", nil))
			want := `{"data":{"us":[{"a":2}]}}`
			o.Count("class=union-by-name-cold")
			o.Emit(Case{Term: N("c08cold"), Obs: N("obs", B(r1 == want && r2 == want)),
				Meta: map[string]interface{}{"doc": q, "cold": r1, "second": r2, "want": want}, Nontrivial: true})
		}
		n := 2500
		if tier == "thorough" {
			n = 100000
		}
		for i := 0; i < n; i++ {
			r := rng.Fork()
			walkCase(o, r, "C08", docOpts{collisions: false, abstract: true, maxDepth: 4, fewDirs: true, nestedFrags: r.Chance(40)}, nil)
		}
		for i := 0; i < n/2; i++ {
			c08Binding(o, rng.Fork())
		}
		c08Late(o)
	}
}
