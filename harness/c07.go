package main

import (
	"math"
	"bytes"
	"encoding/json"
	"fmt"
	"reflect"
	"strconv"
	"strings"

	"github.com/uhn/ggql/pkg/ggql"
)

// ---- C07: well-formed envelope, locations on the token's line, valid JSON --------------------------

func c07Layouts(r *Rng, doc string) []string {
	doc = strings.TrimSpace(doc)
	out := []string{doc,
		strings.ReplaceAll(doc, " ", "\n"),
		strings.ReplaceAll(doc, " ", "\r\n"),
		strings.ReplaceAll(doc, " ", " , "),
		strings.ReplaceAll(doc, " ", "\n  "),
	}
	// random mix with comments
	var b strings.Builder
	for _, ch := range doc {
		if ch == ' ' {
			switch r.Intn(6) {
			case 0:
				b.WriteString("\n")
			case 1:
				b.WriteString(" # note\n")
			case 2:
				b.WriteString("\t")
			case 3:
				b.WriteString(",\n    ")
			default:
				b.WriteString(" ")
			}
		} else {
			b.WriteRune(ch)
		}
	}
	return append(out, b.String())
}

// responseShape converts a response into what encoding/json (UseNumber) must decode its JSON form to.
func responseShape(v interface{}) interface{} {
	if ggql.IsNil(v) {
		return nil // a typed nil pointer handed back by a resolver is JSON null
	}
	switch t := v.(type) {
	case int:
		return json.Number(strconv.Itoa(t))
	case int32:
		return json.Number(strconv.Itoa(int(t)))
	case int64:
		return json.Number(strconv.FormatInt(t, 10))
	case float64:
		return json.Number(strconv.FormatFloat(t, 'g', -1, 64))
	case float32:
		return json.Number(strconv.FormatFloat(float64(t), 'g', -1, 32))
	case string:
		return fffdPerByte(t)
	case []interface{}:
		out := make([]interface{}, len(t))
		for i, x := range t {
			out[i] = responseShape(x)
		}
		return out
	case map[string]interface{}:
		out := map[string]interface{}{}
		for k, x := range t {
			out[k] = responseShape(x)
		}
		return out
	}
	return v
}

func c07Envelope(o *Out, root *ggql.Root, doc, op string, vars map[string]interface{}, class string) {
	res := safeResolve(root, doc, op, vars)
	keysOk, errsNonEmpty, msgsOk, pathsOk, locsPos, rejectedNoData := true, true, true, true, true, true
	if _, p := res["panic"]; p {
		keysOk = false
	}
	for k := range res {
		if k != "data" && k != "errors" {
			keysOk = false
		}
	}
	if len(res) == 0 {
		keysOk = false
	}
	if ev, has := res["errors"]; has {
		ea, ok := ev.([]interface{})
		if !ok || len(ea) == 0 {
			errsNonEmpty = false
		}
		for _, e := range ea {
			em, _ := e.(map[string]interface{})
			if m, _ := em["message"].(string); m == "" {
				msgsOk = false
			}
			for k := range em {
				if k != "message" && k != "path" && k != "locations" && k != "extensions" {
					keysOk = false
				}
			}
			if p, has := em["path"]; has {
				pl, _ := p.([]interface{})
				for _, x := range pl {
					switch t := x.(type) {
					case string:
					case int:
						if t < 0 {
							pathsOk = false
						}
					default:
						pathsOk = false
					}
				}
			}
			if l, has := em["locations"]; has {
				ll, _ := l.([]interface{})
				for _, x := range ll {
					lm, _ := x.(map[string]interface{})
					li, _ := lm["line"].(int)
					co, _ := lm["column"].(int)
					if li < 1 || co < 1 {
						locsPos = false
					}
				}
			}
		}
	}
	if _, err := root.ParseExecutableString(doc); err != nil {
		if d, has := res["data"]; has && d != nil {
			rejectedNoData = false
		}
	}
	jsonOk := true
	for _, ind := range []int{-1, 0, 2} {
		var buf bytes.Buffer
		ggql.Sort = true
		if err := ggql.WriteJSONValue(&buf, res, ind); err != nil {
			jsonOk = false
			continue
		}
		dec := json.NewDecoder(bytes.NewReader(buf.Bytes()))
		dec.UseNumber()
		var got interface{}
		ok := dec.Decode(&got) == nil && reflect.DeepEqual(got, responseShape(res))
		if !ok {
			jsonOk = false
		}
		// the same text through the Lean RFC 8259 reader
		o.Count("class=json-text")
		o.Emit(Case{Term: N("c07json", S(buf.String())), Obs: N("json", B(ok)),
			Meta: map[string]interface{}{"doc": doc, "indent": ind, "text": buf.String()}, Key: buf.String(), Nontrivial: true})
	}
	ggql.Sort = false
	o.Count("class=" + class)
	o.Emit(Case{
		Term: N("c07env"),
		Obs:  N("env", B(keysOk), B(errsNonEmpty), B(msgsOk), B(pathsOk), B(locsPos), B(rejectedNoData), B(jsonOk)),
		Meta: map[string]interface{}{"doc": doc, "op": op, "response": fmt.Sprint(res)}, Key: doc + "|" + op, Nontrivial: true,
	})
}

// c07NumRoot answers every field with one value (a float, or a string to be parsed as one)
type c07NumRoot struct{ v interface{} }

func (r *c07NumRoot) Resolve(f *ggql.Field, args map[string]interface{}) (interface{}, error) {
	switch f.Name {
	case "query":
		return r, nil
	case "l":
		return []interface{}{r.v, r.v}, nil
	case "i":
		return 1, nil
	}
	return r.v, nil
}

// c07StrRoot answers every field with one string: the response strings of the string table below.
type c07StrRoot struct{ s string }

func (r *c07StrRoot) Resolve(f *ggql.Field, args map[string]interface{}) (interface{}, error) {
	switch f.Name {
	case "query":
		return r, nil
	case "fail":
		return nil, fmt.Errorf("bad %s", r.s)
	case "l":
		return []interface{}{r.s, r.s}, nil
	}
	return r.s, nil
}

// every byte 0x00-0x7f alone, embedded, doubled and trailing; the JSON-significant ones; multi-byte and invalid UTF-8
func c07Strings() []string {
	var out []string
	for b := 0; b < 0x80; b++ {
		c := string([]byte{byte(b)})
		out = append(out, c, "a"+c+"b", c+c, "us only"+c)
	}
	out = append(out, "é", "日本", "😀", "\xff", "a\xc3", "\xed\xa0\x80", "\u2028\u2029", "\\u0041", "\"\\\"", "</script>")
	return out
}

func init() {
	props["C07"] = func(o *Out, rng *Rng, tier string) {
		// string table: data values, echoed error messages and list members, every indent mode (in c07Envelope)
		sr := &c07StrRoot{}
		sroot := ggql.NewRoot(sr)
		if err := sroot.ParseString("type Query { s(a: Int): String  l: [String]  fail: String }"); err != nil {
			panic(err)
		}
		for _, str := range c07Strings() {
			sr.s = str
			c07Envelope(o, sroot, "{ s l fail }", "", nil, "string-table")
		}
		// number table: non-finite and overflowing floats returned by a resolver must not reach the JSON text
		// (NaN and Inf have no JSON spelling)
		nr := &c07NumRoot{}
		nroot := ggql.NewRoot(nr)
		if err := nroot.ParseString("type Query { f: Float  g: Float64  l: [Float64]  i: Int }"); err != nil {
			panic(err)
		}
		for _, v := range []interface{}{math.NaN(), math.Inf(1), math.Inf(-1), 1e300, -1e300, float32(math.Inf(1)), float32(math.NaN()),
			math.MaxFloat64, math.SmallestNonzeroFloat64, 1.5, float32(2.5), "Inf", "NaN", "-Inf", "1e999", "1e39"} {
			nr.v = v
			c07Envelope(o, nroot, "{ f g l i }", "", nil, "number-table")
		}
		// unknown top-level words in every position relative to line ends and the end of input: the location of
		// "'x' is not a valid executable operation type" (D64)
		for _, pre := range []string{"", " ", "\n", "{ s }\n", "{ s } ", "# c\n", "\r\n  ", "{ s }\n\n   ", "\t", "{ s },\n,"} {
			for _, word := range []string{"fra", "x", "queryx", "Fragment", "subscriptions"} {
				for _, post := range []string{"", " ", "\n", "\r\n", "{", " { s }", "\n{ s }", ",", "#c\n", "\t", "(", "\n\n", " \n"} {
					doc := pre + word + post
					res := safeResolve(sroot, doc, "", nil)
					obs := N("noloc")
					if ea, ok := res["errors"].([]interface{}); ok {
						for _, e := range ea {
							em, _ := e.(map[string]interface{})
							if msg, _ := em["message"].(string); !strings.Contains(msg, "is not a valid executable operation type") {
								continue
							}
							if l, ok := em["locations"].([]interface{}); ok && len(l) > 0 {
								lm, _ := l[0].(map[string]interface{})
								li, _ := lm["line"].(int)
								co, _ := lm["column"].(int)
								obs = N("loc", I(int64(li)), I(int64(co)))
								break
							}
						}
					}
					if obs.Tag == "noloc" {
						o.Count("op-word-error-not-reached")
						continue
					}
					o.Count("op-word")
					o.Emit(Case{Term: N("c07op", A("opword"), S(doc), I(int64(len(pre))), I(int64(len(word)))), Obs: obs,
						Meta: map[string]interface{}{"doc": doc, "response": fmt.Sprint(res)}, Nontrivial: true})
					c07Envelope(o, sroot, doc, "", nil, "op-word")
				}
			}
		}
		// "missing fragment condition": what stands where `on` is expected, against every kind of following byte (D70)
		locOf := func(res map[string]interface{}, msg string) T {
			if ea, ok := res["errors"].([]interface{}); ok {
				for _, e := range ea {
					em, _ := e.(map[string]interface{})
					if m, _ := em["message"].(string); !strings.Contains(m, msg) {
						continue
					}
					if l, ok := em["locations"].([]interface{}); ok && len(l) > 0 {
						lm, _ := l[0].(map[string]interface{})
						li, _ := lm["line"].(int)
						co, _ := lm["column"].(int)
						return N("loc", I(int64(li)), I(int64(co)))
					}
				}
			}
			return N("noloc")
		}
		for _, pre := range []string{"fragment F ", "fragment F\n", "{ s }\nfragment F\n  ", "fragment F # c\n", "fragment F\r\n"} {
			for _, word := range []string{"x", "onn", "Query", "o"} {
				for _, post := range []string{"", " ", "\n", "\r\n", "{", " Query { s }", "\nQuery { s }", "#c\n", "\t", "\n\n"} {
					doc := pre + word + post
					obs := locOf(safeResolve(sroot, doc, "", nil), "missing fragment condition")
					if obs.Tag == "noloc" {
						o.Count("frag-cond-error-not-reached")
						continue
					}
					o.Count("frag-cond")
					o.Emit(Case{Term: N("c07op", A("fragcond"), S(doc), I(int64(len(pre))), I(int64(len(word)))), Obs: obs,
						Meta: map[string]interface{}{"doc": doc}, Nontrivial: true})
					c07Envelope(o, sroot, doc, "", nil, "frag-cond")
				}
			}
		}
		// a variable whose value can not be coerced: the error is located at the variable's name (D71)
		for _, pre := range []string{"query ($", "query (\n$", "query Q(\n  $", "query ($a: Int, $", "query ($a: Int\n$", "query (#c\n$"} {
			for _, name := range []string{"v", "vv", "longer_name"} {
				for _, post := range []string{": Int", " : Int", "\n: Int", "\n  : Int", "\r\n: Int", "#c\n: Int", "\t: Int", ",: Int"} {
					doc := pre + name + post + ") { s }"
					obs := locOf(safeResolve(sroot, doc, "", map[string]interface{}{name: "not a number"}), "can not coerce")
					if obs.Tag == "noloc" {
						o.Count("var-def-error-not-reached")
						continue
					}
					o.Count("var-def")
					o.Emit(Case{Term: N("c07op", A("vardef"), S(doc), I(int64(len(pre))), I(int64(len(name)))), Obs: obs,
						Meta: map[string]interface{}{"doc": doc}, Nontrivial: true})
				}
			}
		}
		// an operation name that is used twice: the error is located at the second name, which may stand on a later line
		// than its `query` keyword (D88)
		for _, pre := range []string{"query A { s } query ", "query A { s } query\n", "query A { s }\nquery # c\n ", "query A { s } query\n\n  ", "query A { s } query\r\n"} {
			for _, post := range []string{" { s }", "{ s }", "\n{ s }", "#c\n{ s }"} {
				doc := pre + "A" + post
				obs := locOf(safeResolve(sroot, doc, "A", nil), "uplicate")
				if obs.Tag == "noloc" {
					o.Count("op-name-error-not-reached")
					continue
				}
				o.Count("op-name")
				o.Emit(Case{Term: N("c07op", A("opname"), S(doc), I(int64(len(pre))), I(int64(strings.LastIndex(pre, "query")+5))), Obs: obs,
					Meta: map[string]interface{}{"doc": doc}, Nontrivial: true})
				c07Envelope(o, sroot, doc, "A", nil, "op-name")
			}
		}
		// an argument that is not declared, or given twice: the error is located at the argument's name (D82)
		for _, pre := range []string{"{ s(", "{ s(\n", "{ s( # c\n  ", "{ s(a: 1, ", "{ s(a: 1\n"} {
			for _, name := range []string{"z", "zz", "longname", "a"} {
				for _, post := range []string{": 1", " : 1", "\n: 1", "\n\n  : 1", "\r\n: 1", "#c\n: 1", "\t: 1", ",: 1"} {
					if name == "a" && !strings.Contains(pre, "a: 1") {
						continue
					}
					doc := pre + name + post + ") }"
					msg := "is not an argument to"
					if name == "a" {
						msg = "duplicate argument"
					}
					obs := locOf(safeResolve(sroot, doc, "", nil), msg)
					if obs.Tag == "noloc" {
						o.Count("arg-name-error-not-reached")
						continue
					}
					o.Count("arg-name")
					o.Emit(Case{Term: N("c07op", A("argname"), S(doc), I(int64(len(pre))), I(int64(len(name)))), Obs: obs,
						Meta: map[string]interface{}{"doc": doc}, Nontrivial: true})
					c07Envelope(o, sroot, doc, "", nil, "arg-name")
				}
			}
		}
		n := 300
		if tier == "thorough" {
			n = 12000
		}
		for i := 0; i < n; i++ {
			r := rng.Fork()
			s := genSchema(r)
			g := genGraph(r, s)
			d := genDoc(r, s, docOpts{collisions: false, abstract: false, maxDepth: 4, fewDirs: true})
			// mark one field selection of the first operation: unique alias, undefined name
			var cands []*gSel
			var walk func([]*gSel)
			walk = func(ss []*gSel) {
				for _, x := range ss {
					if x.kind == "field" {
						cands = append(cands, x)
					}
					if x.kind != "spread" {
						walk(x.sels)
					}
				}
			}
			walk(d.ops[0].sels)
			if len(cands) == 0 {
				continue
			}
			mark := Pick(r, cands)
			mark.alias, mark.name, mark.sels, mark.args, mark.dirs = "mk", "zzz", nil, nil, nil
			needle, key, tlen := "mk:", "mk", 2
			if r.Bool() {
				// no alias: the field name itself is the first token (it can be followed by a newline)
				mark.alias, mark.name = "", "zzmk"
				needle, key, tlen = "zzmk", "zzmk", 4
			}
			injectFailures(r, s, g, d)
			root, w, _ := newWorld(s, g)
			_ = w
			opName := ""
			if len(d.ops) > 1 {
				opName = d.ops[0].name
			}
			base := d.text()
			for li, doc := range c07Layouts(r, base) {
				res := safeResolve(root, doc, opName, d.vars)
				off := strings.Index(doc, needle)
				obs := N("noloc")
				if ea, ok := res["errors"].([]interface{}); ok {
					for _, e := range ea {
						em, _ := e.(map[string]interface{})
						p, _ := em["path"].([]interface{})
						if len(p) == 0 || p[len(p)-1] != key {
							continue
						}
						if l, ok := em["locations"].([]interface{}); ok && len(l) > 0 {
							lm, _ := l[0].(map[string]interface{})
							li, _ := lm["line"].(int)
							co, _ := lm["column"].(int)
							obs = N("loc", I(int64(li)), I(int64(co)))
							break
						}
					}
				}
				if obs.Tag == "noloc" {
					o.Count("marked-field-not-reached")
					c07Envelope(o, root, doc, opName, d.vars, "valid-layouts")
					continue
				}
				o.Count(fmt.Sprintf("layout=%d", li))
				// character offset (the model works on characters; documents here are ASCII)
				o.Emit(Case{Term: N("c07loc", S(doc), I(int64(off)), I(int64(tlen))), Obs: obs,
					Meta: map[string]interface{}{"doc": doc, "layout": li, "response": fmt.Sprint(res)}, Nontrivial: true})
				c07Envelope(o, root, doc, opName, d.vars, "valid-layouts")
			}
			// invalid and malformed requests
			c07Envelope(o, root, base, "Nope", d.vars, "unknown-op")
			for k := 0; k < 3; k++ {
				bs := []byte(base)
				switch r.Intn(4) {
				case 0:
					j := r.Intn(len(bs))
					bs = append(bs[:j], bs[j+1:]...)
				case 1:
					j := r.Intn(len(bs))
					bs = append(bs[:j], append([]byte(Pick(r, []string{"}", "{", "(", "\"", "$", "@x", "...", "\x00", "!"})), bs[j:]...)...)
				case 2:
					bs = bs[:r.Intn(len(bs))]
				default:
					j := r.Intn(len(bs))
					bs[j] = byte(r.Intn(256))
				}
				c07Envelope(o, root, string(bs), opName, d.vars, "malformed")
			}
		}
	}
}
