package main

import (
	"fmt"
	"regexp"
	"sort"
	"strings"
)

// ---- generator of well-formed schema definition sets (C13 – C17) -----------------------------------

type sDirUse struct {
	name string
	args [][2]string // name, literal
}

func (d sDirUse) sdl() string {
	if len(d.args) == 0 {
		return "@" + d.name
	}
	var as []string
	for _, a := range d.args {
		as = append(as, a[0]+": "+a[1])
	}
	return "@" + d.name + "(" + strings.Join(as, ", ") + ")"
}

func dirsSDL(ds []sDirUse) string {
	var out []string
	for _, d := range ds {
		out = append(out, d.sdl())
	}
	if len(out) == 0 {
		return ""
	}
	return " " + strings.Join(out, " ")
}

type sArg struct {
	name, desc string
	t          *gTRef
	dflt       string // literal text; "" = none
	dirs       []sDirUse
}

type sField struct {
	name, desc string
	args       []*sArg
	t          *gTRef
	dirs       []sDirUse
}

type sEnumVal struct {
	name, desc string
	dirs       []sDirUse
}

type sDef struct {
	kind     string // scalar | enum | input | interface | object | union | directive | schema
	name     string
	desc     string
	dirs     []sDirUse
	fields   []*sField
	ifaces   []string
	members  []string
	values   []*sEnumVal
	inFields []*sArg
	dirArgs  []*sArg
	locs     []string
	roots    [][2]string // schema block: operation, type
}

func descSDL(desc string, indent string) string {
	if desc == "" {
		return ""
	}
	return indent + `"` + desc + `"` + "\n"
}

func (a *sArg) sdl(withDesc bool) string {
	s := ""
	if withDesc && a.desc != "" {
		s += `"` + a.desc + `" `
	}
	s += a.name + ": " + a.t.gql()
	if a.dflt != "" {
		s += " = " + a.dflt
	}
	return s + dirsSDL(a.dirs)
}

func (f *sField) sdl(withDesc bool) string {
	s := ""
	if withDesc {
		s += descSDL(f.desc, "  ")
	}
	s += "  " + f.name
	if len(f.args) > 0 {
		var as []string
		for _, a := range f.args {
			as = append(as, a.sdl(withDesc))
		}
		s += "(" + strings.Join(as, ", ") + ")"
	}
	return s + ": " + f.t.gql() + dirsSDL(f.dirs) + "\n"
}

// sdl renders the definition; `extend` renders it as an extension block
func (d *sDef) sdl(withDesc bool, extend bool) string {
	var b strings.Builder
	if withDesc && !extend {
		b.WriteString(descSDL(d.desc, ""))
	}
	if extend {
		b.WriteString("extend ")
	}
	switch d.kind {
	case "scalar":
		b.WriteString("scalar " + d.name + dirsSDL(d.dirs) + "\n")
	case "enum":
		b.WriteString("enum " + d.name + dirsSDL(d.dirs) + " {\n")
		for _, v := range d.values {
			if withDesc {
				b.WriteString(descSDL(v.desc, "  "))
			}
			b.WriteString("  " + v.name + dirsSDL(v.dirs) + "\n")
		}
		b.WriteString("}\n")
	case "input":
		b.WriteString("input " + d.name + dirsSDL(d.dirs) + " {\n")
		for _, f := range d.inFields {
			if withDesc {
				b.WriteString(descSDL(f.desc, "  "))
			}
			s := "  " + f.name + ": " + f.t.gql()
			if f.dflt != "" {
				s += " = " + f.dflt
			}
			b.WriteString(s + dirsSDL(f.dirs) + "\n")
		}
		b.WriteString("}\n")
	case "interface", "object":
		kw := "interface "
		if d.kind == "object" {
			kw = "type "
		}
		b.WriteString(kw + d.name)
		if len(d.ifaces) > 0 {
			b.WriteString(" implements " + strings.Join(d.ifaces, " & "))
		}
		b.WriteString(dirsSDL(d.dirs) + " {\n")
		for _, f := range d.fields {
			b.WriteString(f.sdl(withDesc))
		}
		b.WriteString("}\n")
	case "union":
		b.WriteString("union " + d.name + dirsSDL(d.dirs) + " = " + strings.Join(d.members, " | ") + "\n")
	case "directive":
		b.WriteString("directive @" + d.name)
		if len(d.dirArgs) > 0 {
			var as []string
			for _, a := range d.dirArgs {
				as = append(as, a.sdl(withDesc))
			}
			b.WriteString("(" + strings.Join(as, ", ") + ")")
		}
		b.WriteString(" on " + strings.Join(d.locs, " | ") + "\n")
	case "schema":
		b.WriteString("schema" + dirsSDL(d.dirs) + " {\n")
		for _, r := range d.roots {
			b.WriteString("  " + r[0] + ": " + r[1] + "\n")
		}
		b.WriteString("}\n")
	}
	return b.String()
}

type sSet struct {
	defs []*sDef
	by   map[string]*sDef
}

func (s *sSet) sdl(withDesc bool) string {
	var b strings.Builder
	for _, d := range s.defs {
		b.WriteString(d.sdl(withDesc, false))
	}
	return b.String()
}

var sDescs = []string{"", "", "plain words", "with 'single' quote", "tab\there", "unicode é 日本", "trailing space ", "a # hash", "semi;colon {brace}"}

var sDescsHard = []string{`back\slash`, `quote " inside`, `ends with a "quote"`, `"starts" with a quote`, `"`, `two "" quotes`, `say "hi" and "bye"`, "line one\nline two", `triple """ inside`, `A escape-looking`, `ends with backslash\`}

func genDesc(r *Rng, hard bool) string {
	if hard && r.Chance(35) {
		return Pick(r, sDescsHard)
	}
	return Pick(r, sDescs)
}

type sdlOpts struct {
	hardDescs bool // descriptions with quotes, backslashes, newlines, triple quotes (C15)
	defaults  bool
	dirUses   bool
	schemaBlk bool
}

// tagUseNull: also generate `@tag(n: null)` — an explicit null for an argument that has a default (C16)
var tagUseNull bool

func genTagUse(r *Rng) sDirUse {
	d := sDirUse{name: "tag"}
	if tagUseNull && r.Chance(25) {
		d.args = append(d.args, [2]string{"n", "null"})
		return d
	}
	switch r.Intn(3) {
	case 0:
		d.args = append(d.args, [2]string{"n", fmt.Sprint(r.Intn(50))})
	case 1:
		d.args = append(d.args, [2]string{"s", fmt.Sprintf("%q", Pick(r, []string{"x", "y z", ""}))})
	}
	return d
}

func inputDefault(r *Rng, t *gTRef, s *sSet, depth int) string {
	switch t.kind {
	case "nn":
		return inputDefault(r, t.base, s, depth)
	case "list":
		n := r.Intn(3)
		var xs []string
		for i := 0; i < n; i++ {
			xs = append(xs, inputDefault(r, t.base, s, depth+1))
		}
		return "[" + strings.Join(xs, ", ") + "]"
	}
	switch t.name {
	case "Int":
		return Pick(r, []string{"0", "7", "-3", "2147483647"})
	case "Float":
		return Pick(r, []string{"1.5", "-0.25", "3", "1e3", "0.30000000000000004", "1.0000000000000002", "1234567.8901234567", "-2.2250738585072014e-308", "1.7976931348623157e308", "5e-324"})
	case "String":
		return Pick(r, []string{`"s"`, `""`, `"two words"`, `"q\"uote"`, `"é"`, `"\u001b[31m"`, `"a\u001fb\u0010"`, `"t\tb"`})
	case "Boolean":
		return Pick(r, []string{"true", "false"})
	case "ID":
		return Pick(r, []string{`"id1"`, "12"})
	}
	if d := s.by[t.name]; d != nil {
		switch d.kind {
		case "enum":
			return Pick(r, d.values).name
		case "input":
			if depth > 1 {
				return "null"
			}
			var kv []string
			for _, f := range d.inFields {
				if f.t.kind == "nn" || r.Chance(40) {
					kv = append(kv, f.name+": "+inputDefault(r, f.t, s, depth+1))
				}
			}
			return "{" + strings.Join(kv, ", ") + "}"
		}
	}
	return "null"
}

// genSet generates a well-formed definition set.
func genSet(r *Rng, o sdlOpts) *sSet {
	s := &sSet{by: map[string]*sDef{}}
	add := func(d *sDef) { s.defs = append(s.defs, d); s.by[d.name] = d }
	wrap := func(b *gTRef) *gTRef {
		switch r.Intn(8) {
		case 0, 1:
			return listOf(b)
		case 2:
			return listOf(listOf(nonNull(b)))
		case 3:
			return nonNull(b)
		case 4:
			return nonNull(listOf(nonNull(b)))
		}
		return b
	}
	tagLocs := []string{"OBJECT", "INTERFACE", "UNION", "ENUM", "ENUM_VALUE", "SCALAR", "INPUT_OBJECT", "FIELD_DEFINITION",
		"INPUT_FIELD_DEFINITION", "ARGUMENT_DEFINITION", "SCHEMA"}
	if o.dirUses {
		add(&sDef{kind: "directive", name: "tag", desc: genDesc(r, o.hardDescs), locs: tagLocs,
			dirArgs: []*sArg{{name: "n", t: named("Int"), dflt: "1"}, {name: "s", t: named("String")}}})
	}
	mayTag := func() []sDirUse {
		if o.dirUses && r.Chance(25) {
			return []sDirUse{genTagUse(r)}
		}
		return nil
	}
	inLeaf := []string{"Int", "Float", "String", "Boolean", "ID"}
	outLeaf := []string{"Int", "Float", "String", "Boolean", "ID"}
	nEnum := 1 + r.Intn(2)
	for i := 0; i < nEnum; i++ {
		d := &sDef{kind: "enum", name: fmt.Sprintf("E%d", i), desc: genDesc(r, o.hardDescs), dirs: mayTag()}
		n := 1 + r.Intn(4)
		for j := 0; j < n; j++ {
			v := &sEnumVal{name: fmt.Sprintf("V%d_%d", i, j), desc: genDesc(r, o.hardDescs), dirs: mayTag()}
			if r.Chance(15) {
				v.dirs = append(v.dirs, sDirUse{name: "deprecated", args: [][2]string{{"reason", `"old"`}}})
			}
			d.values = append(d.values, v)
		}
		add(d)
		inLeaf = append(inLeaf, d.name)
		outLeaf = append(outLeaf, d.name)
	}
	if r.Chance(50) {
		add(&sDef{kind: "scalar", name: "Blob", desc: genDesc(r, o.hardDescs), dirs: mayTag()})
		inLeaf = append(inLeaf, "Blob")
		outLeaf = append(outLeaf, "Blob")
	}
	nIn := r.Intn(3)
	var inputs []string
	for i := 0; i < nIn; i++ {
		inputs = append(inputs, fmt.Sprintf("In%d", i))
	}
	for i, name := range inputs {
		d := &sDef{kind: "input", name: name, desc: genDesc(r, o.hardDescs), dirs: mayTag()}
		add(d)
		n := 1 + r.Intn(4)
		for j := 0; j < n; j++ {
			var base *gTRef
			if r.Chance(25) && i > 0 {
				base = named(inputs[r.Intn(i)]) // earlier input object only: no unbounded defaults
			} else {
				base = named(Pick(r, inLeaf))
			}
			f := &sArg{name: fmt.Sprintf("f%d", j), desc: genDesc(r, o.hardDescs), t: wrap(base), dirs: mayTag()}
			d.inFields = append(d.inFields, f)
		}
	}
	for _, name := range inputs {
		for _, f := range s.by[name].inFields {
			if o.defaults && r.Chance(40) {
				f.dflt = inputDefault(r, f.t, s, 0)
			}
		}
	}
	inTypes := append(append([]string{}, inLeaf...), inputs...)
	genArgs := func() []*sArg {
		var as []*sArg
		if !r.Chance(35) {
			return nil
		}
		n := 1 + r.Intn(3)
		for j := 0; j < n; j++ {
			a := &sArg{name: fmt.Sprintf("a%d", j), desc: genDesc(r, o.hardDescs), t: wrap(named(Pick(r, inTypes)))}
			if o.defaults && r.Chance(40) {
				a.dflt = inputDefault(r, a.t, s, 0)
			}
			as = append(as, a)
		}
		return as
	}
	nIf := r.Intn(3)
	nObj := 2 + r.Intn(4)
	var ifs, objs, uns []string
	for i := 0; i < nIf; i++ {
		ifs = append(ifs, fmt.Sprintf("I%d", i))
	}
	for i := 0; i < nObj; i++ {
		objs = append(objs, fmt.Sprintf("T%d", i))
	}
	nUn := r.Intn(3)
	for i := 0; i < nUn; i++ {
		uns = append(uns, fmt.Sprintf("U%d", i))
	}
	outBase := func() *gTRef {
		switch c := r.Intn(10); {
		case c < 5:
			return named(Pick(r, outLeaf))
		case c < 8 || (len(ifs) == 0 && len(uns) == 0):
			return named(Pick(r, objs))
		case len(ifs) > 0 && (c == 8 || len(uns) == 0):
			return named(Pick(r, ifs))
		default:
			return named(Pick(r, uns))
		}
	}
	genFields := func(prefix string, n int) []*sField {
		var fs []*sField
		for j := 0; j < n; j++ {
			f := &sField{name: fmt.Sprintf("%s%d", prefix, j), desc: genDesc(r, o.hardDescs), args: genArgs(), t: wrap(outBase()), dirs: mayTag()}
			if r.Chance(12) {
				f.dirs = append(f.dirs, sDirUse{name: "deprecated"})
			}
			fs = append(fs, f)
		}
		return fs
	}
	for i, name := range ifs {
		d := &sDef{kind: "interface", name: name, desc: genDesc(r, o.hardDescs), dirs: mayTag()}
		d.fields = genFields(fmt.Sprintf("i%d_", i), 1+r.Intn(2))
		add(d)
	}
	for _, name := range uns {
		d := &sDef{kind: "union", name: name, desc: genDesc(r, o.hardDescs), dirs: mayTag()}
		for _, o2 := range objs {
			if r.Chance(50) {
				d.members = append(d.members, o2)
			}
		}
		if len(d.members) == 0 {
			d.members = []string{objs[0]}
		}
		add(d)
	}
	for _, name := range objs {
		d := &sDef{kind: "object", name: name, desc: genDesc(r, o.hardDescs), dirs: mayTag()}
		for _, in := range ifs {
			if r.Chance(40) {
				d.ifaces = append(d.ifaces, in)
				for _, f := range s.by[in].fields {
					cp := &sField{name: f.name, desc: genDesc(r, o.hardDescs), t: f.t}
					for _, a := range f.args {
						cp.args = append(cp.args, &sArg{name: a.name, t: a.t, dflt: a.dflt})
					}
					d.fields = append(d.fields, cp)
				}
			}
		}
		d.fields = append(d.fields, genFields(strings.ToLower(name)+"f", 1+r.Intn(4))...)
		add(d)
	}
	qname := "Query"
	if o.schemaBlk && r.Chance(50) {
		qname = "RootQ"
	}
	q := &sDef{kind: "object", name: qname, desc: genDesc(r, o.hardDescs)}
	// the root operation type is an object like any other: it may implement interfaces (Relay style)
	for _, in := range ifs {
		if r.Chance(20) {
			q.ifaces = append(q.ifaces, in)
			for _, f := range s.by[in].fields {
				cp := &sField{name: f.name, desc: genDesc(r, o.hardDescs), t: f.t}
				for _, a := range f.args {
					cp.args = append(cp.args, &sArg{name: a.name, t: a.t, dflt: a.dflt})
				}
				q.fields = append(q.fields, cp)
			}
		}
	}
	q.fields = append(q.fields, genFields("q", 2+r.Intn(3))...)
	add(q)
	if qname != "Query" || (o.schemaBlk && r.Chance(30)) {
		add(&sDef{kind: "schema", name: "", roots: [][2]string{{"query", qname}}})
	}
	return s
}

// ---- canonical description of a loaded root through its printed SDL --------------------------------

// canonSDL: the user-defined part of the printed schema; with sortMembers the lines inside each block
// are sorted (for arrangements that legitimately reorder members)
var tagUseRe = regexp.MustCompile(`@tag(\([^)]*\))?`)

// completeTagUses rewrites every use of @tag with its argument defaults filled in (n: 1, s: null):
// "the same directive uses once directive-argument defaults are taken into account"
func completeTagUses(text string) string {
	return tagUseRe.ReplaceAllStringFunc(text, func(m string) string {
		n, sv := "1", "null"
		if i := strings.Index(m, "("); i >= 0 {
			for _, part := range strings.Split(m[i+1:len(m)-1], ",") {
				kv := strings.SplitN(strings.TrimSpace(part), ":", 2)
				if len(kv) != 2 {
					continue
				}
				switch strings.TrimSpace(kv[0]) {
				case "n":
					n = strings.TrimSpace(kv[1])
				case "s":
					sv = strings.TrimSpace(kv[1])
				}
			}
		}
		return "@tag(n: " + n + ", s: " + sv + ")"
	})
}

func canonSDL(text string, sortMembers bool) string {
	text = completeTagUses(text)
	if !sortMembers {
		return text
	}
	var out []string
	var block []string
	in := false
	for _, line := range strings.Split(text, "\n") {
		t := strings.TrimSpace(line)
		switch {
		case strings.HasSuffix(t, "{"):
			in = true
			out = append(out, line)
			block = nil
		case t == "}" && in:
			sort.Strings(block)
			out = append(out, block...)
			out = append(out, line)
			in = false
		case in:
			block = append(block, line)
		default:
			out = append(out, line)
		}
	}
	return strings.Join(out, "\n")
}
