package main

import (
	"fmt"
	"math"

	"github.com/uhn/ggql/pkg/ggql"
)

// ---- C02, arguments: a field backed by a Go method (reflection) and the same field answered by a Resolver must
// be handed the same argument values, whether they are written as literals or supplied through variables -------

const c02ArgsSDL = `type Query {
  add(a: Int!, b: Int!): String
  wide(a: Int!, n: Int64!): String
  scale(f: Float!, g: Float64!): String
  say(s: String!, ok: Boolean!): String
  opt(s: String, n: Int, ok: Boolean): String
  mix(s: String!, n: Int, f: Float): String
  size(unit: String!, n: Int): Int
  dflt(s: String = "World", n: Int = 2): String
  pick(c: Color, s: String): String
}
enum Color { RED GREEN BLUE }`

// reflection root: Go methods with the natural parameter types
type c02ReflectArgs struct {
	Size int32 // `size` is bound to this member: its arguments are still checked
}

func (*c02ReflectArgs) Add(a, b int32) string             { return fmt.Sprintf("add %d %d", a, b) }
func (*c02ReflectArgs) Wide(a int, n int64) string        { return fmt.Sprintf("wide %d %d", a, n) }
func (*c02ReflectArgs) Scale(f float32, g float64) string { return fmt.Sprintf("scale %v %v", f, g) }
func (*c02ReflectArgs) Say(s string, ok bool) string      { return fmt.Sprintf("say %q %v", s, ok) }

// optional arguments: one that is left out (or null) is the zero value of the parameter, as it is the zero value
// of the type assertion on the argument map
func (*c02ReflectArgs) Opt(s string, n int32, ok bool) string {
	return fmt.Sprintf("opt %q %d %v", s, n, ok)
}

// arguments with defaults in the schema: whatever the library does with the default of an argument that is left
// out (it hands nothing on: the zero value), every strategy sees the same
func (*c02ReflectArgs) Dflt(s string, n int32) string { return fmt.Sprintf("dflt %q %d", s, n) }

// an enum argument: the natural Go parameter for it is a string
func (*c02ReflectArgs) Pick(c string, s string) string { return fmt.Sprintf("pick %s %q", c, s) }
func (*c02ReflectArgs) Mix(s string, n int32, f float32) string {
	return fmt.Sprintf("mix %q %d %v", s, n, f)
}

// the schema object of the reflection root: its `query` field
type c02ReflectSchema struct {
	Query *c02ReflectArgs
}

// Resolver root: the same answers computed from the argument map
type c02ResolverArgs struct{}

func (r *c02ResolverArgs) Resolve(f *ggql.Field, args map[string]interface{}) (interface{}, error) {
	switch f.Name {
	case "query":
		return r, nil
	case "add":
		return fmt.Sprintf("add %d %d", args["a"], args["b"]), nil
	case "wide":
		return fmt.Sprintf("wide %d %d", args["a"], args["n"]), nil
	case "scale":
		return fmt.Sprintf("scale %v %v", args["f"], args["g"]), nil
	case "say":
		return fmt.Sprintf("say %q %v", args["s"], args["ok"]), nil
	case "opt":
		str, _ := args["s"].(string)
		n, _ := args["n"].(int32)
		ok, _ := args["ok"].(bool)
		return fmt.Sprintf("opt %q %d %v", str, n, ok), nil
	case "size":
		return int32(3), nil
	case "pick":
		c := ""
		switch t := args["c"].(type) {
		case ggql.Symbol:
			c = string(t)
		case string:
			c = t
		}
		str, _ := args["s"].(string)
		return fmt.Sprintf("pick %s %q", c, str), nil
	case "dflt":
		str, _ := args["s"].(string)
		n, _ := args["n"].(int32)
		return fmt.Sprintf("dflt %q %d", str, n), nil
	case "mix":
		str, _ := args["s"].(string)
		n, _ := args["n"].(int32)
		f, _ := args["f"].(float32)
		return fmt.Sprintf("mix %q %d %v", str, n, f), nil
	}
	return nil, fmt.Errorf("no field %s", f.Name)
}

func c02ArgsStream(o *Out, rng *Rng, n int) {
	refl := ggql.NewRoot(&c02ReflectSchema{Query: &c02ReflectArgs{Size: 3}})
	res := ggql.NewRoot(&c02ResolverArgs{})
	for _, r := range []*ggql.Root{refl, res} {
		if err := r.ParseString(c02ArgsSDL); err != nil {
			panic(err)
		}
	}
	ints := []int64{0, 1, -1, 7, 2147483647, -2147483648, 2147483648, -2147483649, 1 << 40}
	floats := []float64{0, 1.5, -2.25, 3, 1e10, 3.4e38, 1e300}
	type arg struct {
		name, typ string
		lit       string      // literal text
		val       interface{} // variable value
	}
	pickArg := func(name, typ string) arg {
		switch typ {
		case "Int!", "Int64!":
			if rng.Chance(10) {
				return arg{name, typ, `"str"`, "str"}
			}
			v := Pick(rng, ints)
			return arg{name, typ, fmt.Sprint(v), float64(v)} // JSON numbers arrive as float64
		case "Float!", "Float64!":
			if rng.Chance(10) {
				return arg{name, typ, "true", true}
			}
			v := Pick(rng, floats)
			if v == math.Trunc(v) && math.Abs(v) < 1e15 && rng.Bool() {
				return arg{name, typ, fmt.Sprintf("%d", int64(v)), v}
			}
			return arg{name, typ, fmtFloatLit(v), v}
		case "Color":
			v := Pick(rng, []string{"RED", "GREEN", "BLUE"})
			return arg{name, typ, v, v}
		case "Int":
			v := Pick(rng, []int64{0, 1, -1, 7, 2147483647})
			return arg{name, typ, fmt.Sprint(v), float64(v)}
		case "Float":
			v := Pick(rng, []float64{0, 1.5, -2.25})
			return arg{name, typ, fmtFloatLit(v), v}
		case "String!", "String":
			v := Pick(rng, []string{"", "a", "two words", "é"})
			return arg{name, typ, fmt.Sprintf("%q", v), v}
		default:
			v := rng.Bool()
			return arg{name, typ, fmt.Sprint(v), v}
		}
	}
	fields := []struct {
		name string
		args [][2]string
	}{
		{"add", [][2]string{{"a", "Int!"}, {"b", "Int!"}}},
		{"wide", [][2]string{{"a", "Int!"}, {"n", "Int64!"}}},
		{"scale", [][2]string{{"f", "Float!"}, {"g", "Float64!"}}},
		{"say", [][2]string{{"s", "String!"}, {"ok", "Boolean!"}}},
		{"opt", [][2]string{{"s", "String"}, {"n", "Int"}, {"ok", "Boolean"}}},
		{"mix", [][2]string{{"s", "String!"}, {"n", "Int"}, {"f", "Float"}}},
		{"size", [][2]string{{"unit", "String!"}, {"n", "Int"}}},
		{"dflt", [][2]string{{"s", "String"}, {"n", "Int"}}},
		{"pick", [][2]string{{"c", "Color"}, {"s", "String"}}},
	}
	for i := 0; i < n; i++ {
		f := Pick(rng, fields)
		vars := map[string]interface{}{}
		vdefs, call := "", ""
		// arguments in any order; one may be left out or, when optional, be an explicit null
		optionalAbsent := false
		order := rng.Perm(len(f.args))
		if rng.Chance(60) {
			for k := range order {
				order[k] = k
			}
		}
		for _, k := range order {
			a := f.args[k]
			av := pickArg(a[0], a[1])
			optional := a[1][len(a[1])-1] != '!'
			if (optional && rng.Chance(30)) || (!optional && rng.Chance(6)) {
				o.Count("args-argument-left-out optional=" + fmt.Sprint(optional))
				optionalAbsent = optionalAbsent || optional
				continue
			}
			if call != "" {
				call += ", "
			}
			if optional && rng.Chance(15) {
				o.Count("args-explicit-null")
				optionalAbsent = true
				call += av.name + ": null"
			} else if rng.Bool() {
				call += av.name + ": " + av.lit
			} else {
				vn := "v" + av.name
				vdefs += fmt.Sprintf("$%s: %s ", vn, av.typ)
				vars[vn] = av.val
				call += av.name + ": $" + vn
			}
		}
		doc := "{ " + f.name + "(" + call + ") }"
		if call == "" {
			doc = "{ " + f.name + " }"
		}
		if vdefs != "" {
			doc = "query (" + vdefs + ") " + doc
		}
		a := canonResponse(safeResolve(res, doc, "", vars))
		b := canonResponse(safeResolve(refl, doc, "", vars))
		o.Count("args-field=" + f.name)
		o.Emit(Case{Term: N("c02a", S(doc), B(optionalAbsent)), Obs: N("obs", B(a == b)),
			Meta: map[string]interface{}{"doc": doc, "vars": fmt.Sprintf("%#v", vars), "resolver": a, "reflection": b}, Nontrivial: true})
	}
}

// canonResponse: data plus the number of errors (messages differ between the strategies only in wording)
func canonResponse(r map[string]interface{}) string {
	ne := 0
	if ea, ok := r["errors"].([]interface{}); ok {
		ne = len(ea)
	}
	return fmt.Sprintf("%v errors=%d", r["data"], ne)
}
