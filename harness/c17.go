package main

import (
	"fmt"
	"regexp"
	"sort"
	"strconv"
	"strings"

	"github.com/uhn/ggql/pkg/ggql"
)

// ---- C17: introspection describes the loaded schema ------------------------------------------------

var intRe = regexp.MustCompile(`^-?[0-9]+$`)

func dfltTerm(lit string) T {
	switch {
	case lit == "":
		return A("none")
	case lit == "null":
		return A("null")
	case lit == "true" || lit == "false":
		return N("bool", B(lit == "true"))
	case strings.HasPrefix(lit, `"`):
		s, err := strconv.Unquote(lit)
		if err != nil {
			s = strings.Trim(lit, `"`)
		}
		return N("str", S(s))
	case strings.HasPrefix(lit, "["):
		return A("list")
	case strings.HasPrefix(lit, "{"):
		return A("obj")
	case intRe.MatchString(lit):
		n, _ := strconv.ParseInt(lit, 10, 64)
		return N("int", I(n))
	case lit[0] == '-' || (lit[0] >= '0' && lit[0] <= '9'):
		return A("float")
	}
	return N("sym", S(lit))
}

func depTerm(ds []sDirUse) T {
	for _, d := range ds {
		if d.name == "deprecated" {
			for _, a := range d.args {
				if a[0] == "reason" {
					s, err := strconv.Unquote(a[1])
					if err != nil {
						s = a[1]
					}
					return N("reason", S(s))
				}
			}
			return A("bare")
		}
	}
	return A("no")
}

// descriptions are compared modulo surrounding white space (what the SDL reader keeps of a
// description's edges is C15's subject, not introspection's)
func D(desc string) T { return S(strings.TrimSpace(desc)) }

func ivTerm(a *sArg) T { return N("iv", S(a.name), D(a.desc), a.t.term(), dfltTerm(a.dflt)) }

// jTermL is jTerm with Go's nil slice read as the empty list it is (WriteJSONValue prints `[]`)
func jTermL(v interface{}) T {
	switch t := v.(type) {
	case []interface{}:
		ts := make([]T, len(t))
		for i, x := range t {
			ts[i] = jTermL(x)
		}
		return N("list", ts...)
	case map[string]interface{}:
		keys := make([]string, 0, len(t))
		for k := range t {
			keys = append(keys, k)
		}
		sort.Strings(keys)
		var ts []T
		for _, k := range keys {
			ts = append(ts, N("kv", S(k), jTermL(t[k])))
		}
		return N("obj", ts...)
	}
	return jTerm(v)
}

func ivsTerm(as []*sArg) T {
	var out []T
	for _, a := range as {
		out = append(out, ivTerm(a))
	}
	return LS(out)
}

func introFieldsTerm(fs []*sField) T {
	var out []T
	for _, f := range fs {
		out = append(out, N("field", S(f.name), D(f.desc), ivsTerm(f.args), f.t.term(), depTerm(f.dirs)))
	}
	return LS(out)
}

func optTerm(s string) T {
	if s == "" {
		return A("none")
	}
	return N("some", S(s))
}

func (s *sSet) introTerm() T {
	var defs, dirs []T
	roots := map[string]string{}
	hasBlock := false
	for _, d := range s.defs {
		switch d.kind {
		case "scalar":
			defs = append(defs, N("scalar", S(d.name), D(d.desc)))
		case "enum":
			var vs []T
			for _, v := range d.values {
				vs = append(vs, N("v", S(v.name), D(v.desc), depTerm(v.dirs)))
			}
			defs = append(defs, N("enum", S(d.name), D(d.desc), LS(vs)))
		case "input":
			defs = append(defs, N("input", S(d.name), D(d.desc), ivsTerm(d.inFields)))
		case "interface":
			defs = append(defs, N("iface", S(d.name), D(d.desc), introFieldsTerm(d.fields)))
		case "object":
			defs = append(defs, N("object", S(d.name), D(d.desc), strsTerm(d.ifaces), introFieldsTerm(d.fields)))
		case "union":
			defs = append(defs, N("union", S(d.name), D(d.desc), strsTerm(d.members)))
		case "directive":
			dirs = append(dirs, N("dir", S(d.name), D(d.desc), ivsTerm(d.dirArgs), strsTerm(d.locs)))
		case "schema":
			hasBlock = true
			for _, r := range d.roots {
				roots[r[0]] = r[1]
			}
		}
	}
	if !hasBlock {
		for _, op := range []string{"Query", "Mutation", "Subscription"} {
			if s.by[op] != nil {
				roots[strings.ToLower(op)] = op
			}
		}
	}
	for _, b := range builtinScalarDescs() {
		defs = append(defs, N("scalar", S(b[0]), D(b[1])))
	}
	return N("schema", LS(defs), LS(dirs), optTerm(roots["query"]), optTerm(roots["mutation"]), optTerm(roots["subscription"]), B(hasBlock))
}

var builtinDescCache [][2]string

// the eight scalars every root starts with, with the descriptions the library gives them (they are
// not part of the user's schema: read from a fresh root and handed to the model as they are)
func builtinScalarDescs() [][2]string {
	if builtinDescCache == nil {
		root := newLoadRoot()
		_ = root.ParseString("type Query { a: Int }")
		for _, n := range []string{"Boolean", "Float", "Float64", "ID", "Int", "Int64", "String", "Time"} {
			desc := ""
			if t := root.GetType(n); t != nil {
				desc = t.Description()
			}
			builtinDescCache = append(builtinDescCache, [2]string{n, desc})
		}
	}
	return builtinDescCache
}

// ---- selections over the meta-types ----------------------------------------------------------------

type iSel struct {
	key, mf  string
	inc      bool // includeDeprecated: true
	incGiven bool // the argument is written out
	typename bool
	subs     []*iSel
}

type metaField struct{ name, to string }

var metaTypes = map[string][]metaField{
	"__Schema": {{"types", "__Type"}, {"queryType", "__Type"}, {"mutationType", "__Type"}, {"subscriptionType", "__Type"}, {"directives", "__Directive"}},
	"__Type": {{"kind", ""}, {"name", ""}, {"description", ""}, {"fields", "__Field"}, {"interfaces", "__Type"}, {"possibleTypes", "__Type"},
		{"enumValues", "__EnumValue"}, {"inputFields", "__InputValue"}, {"ofType", "__Type"}},
	"__Field":      {{"name", ""}, {"description", ""}, {"args", "__InputValue"}, {"type", "__Type"}, {"isDeprecated", ""}, {"deprecationReason", ""}},
	"__InputValue": {{"name", ""}, {"description", ""}, {"type", "__Type"}, {"defaultValue", ""}},
	"__EnumValue":  {{"name", ""}, {"description", ""}, {"isDeprecated", ""}, {"deprecationReason", ""}},
	"__Directive":  {{"name", ""}, {"description", ""}, {"locations", ""}, {"args", "__InputValue"}},
}

func (s *iSel) text(b *strings.Builder) {
	if s.typename {
		if s.key != "__typename" {
			b.WriteString(s.key + ": ")
		}
		b.WriteString("__typename ")
		return
	}
	if s.key != s.mf {
		b.WriteString(s.key + ": ")
	}
	b.WriteString(s.mf)
	if s.incGiven {
		fmt.Fprintf(b, "(includeDeprecated: %v)", s.inc)
	}
	if len(s.subs) > 0 {
		b.WriteString(" { ")
		for _, c := range s.subs {
			c.text(b)
		}
		b.WriteString("} ")
	} else {
		b.WriteString(" ")
	}
}

func (s *iSel) term() T {
	if s.typename {
		return N("tn", S(s.key))
	}
	var subs []T
	for _, c := range s.subs {
		subs = append(subs, c.term())
	}
	return N("s", S(s.key), S(s.mf), B(s.inc), LS(subs))
}

// genSels: a random, non-empty, key-unique selection set on a meta-type
func genMetaSels(r *Rng, ty string, depth int, forceName bool) []*iSel {
	var out []*iSel
	used := map[string]bool{}
	add := func(s *iSel) {
		if used[s.key] {
			return
		}
		used[s.key] = true
		out = append(out, s)
	}
	if forceName {
		add(&iSel{key: "name", mf: "name"})
	}
	for _, mf := range metaTypes[ty] {
		p := 55
		if mf.to != "" {
			p = 45
			if depth <= 0 {
				continue
			}
		}
		if !r.Chance(p) {
			continue
		}
		s := &iSel{key: mf.name, mf: mf.name}
		if r.Chance(12) {
			s.key = fmt.Sprintf("k%d_%s", r.Intn(3), mf.name)
		}
		if mf.name == "fields" || mf.name == "enumValues" {
			switch r.Intn(3) {
			case 0:
				s.inc, s.incGiven = true, true
			case 1:
				s.inc, s.incGiven = false, true
			}
		}
		if mf.to != "" {
			s.subs = genMetaSels(r, mf.to, depth-1, false)
		}
		add(s)
	}
	if r.Chance(8) {
		add(&iSel{key: "__typename", typename: true})
	}
	if len(out) == 0 {
		add(&iSel{key: "name", mf: "name"})
		if ty == "__Schema" {
			out[0] = &iSel{key: "queryType", mf: "queryType", subs: []*iSel{{key: "name", mf: "name"}}}
		}
	}
	return out
}

func sel(mf string, subs ...*iSel) *iSel { return &iSel{key: mf, mf: mf, subs: subs} }

func typeRefSel(depth int) []*iSel {
	out := []*iSel{sel("kind"), sel("name")}
	if depth > 0 {
		out = append(out, sel("ofType", typeRefSel(depth-1)...))
	}
	return out
}

// the usual full introspection request (the shape GraphiQL sends)
func fullTypeSels(inc bool) []*iSel {
	inputValue := []*iSel{sel("name"), sel("description"), sel("type", typeRefSel(4)...), sel("defaultValue")}
	fields := sel("fields", sel("name"), sel("description"), sel("args", inputValue...), sel("type", typeRefSel(4)...), sel("isDeprecated"), sel("deprecationReason"))
	fields.inc, fields.incGiven = inc, true
	evs := sel("enumValues", sel("name"), sel("description"), sel("isDeprecated"), sel("deprecationReason"))
	evs.inc, evs.incGiven = inc, true
	return []*iSel{sel("kind"), sel("name"), sel("description"), fields, sel("inputFields", inputValue...),
		sel("interfaces", typeRefSel(1)...), evs, sel("possibleTypes", typeRefSel(1)...)}
}

type iTop struct {
	key, name string // name == "" for __schema
	schema    bool
	subs      []*iSel
}

func fullQuery(inc bool) []*iTop {
	inputValue := []*iSel{sel("name"), sel("description"), sel("type", typeRefSel(4)...), sel("defaultValue")}
	return []*iTop{{key: "__schema", schema: true, subs: []*iSel{
		sel("queryType", sel("name")), sel("mutationType", sel("name")), sel("subscriptionType", sel("name")),
		sel("types", fullTypeSels(inc)...),
		sel("directives", sel("name"), sel("description"), sel("locations"), sel("args", inputValue...)),
	}}}
}

func topsText(tops []*iTop) string {
	var b strings.Builder
	b.WriteString("{ ")
	for _, t := range tops {
		if t.schema {
			if t.key != "__schema" {
				b.WriteString(t.key + ": ")
			}
			b.WriteString("__schema { ")
		} else {
			if t.key != "__type" {
				b.WriteString(t.key + ": ")
			}
			fmt.Fprintf(&b, "__type(name: %q) { ", t.name)
		}
		for _, s := range t.subs {
			s.text(&b)
		}
		b.WriteString("} ")
	}
	b.WriteString("}")
	return b.String()
}

func topsTerm(tops []*iTop) T {
	var out []T
	for _, t := range tops {
		var subs []T
		for _, s := range t.subs {
			subs = append(subs, s.term())
		}
		if t.schema {
			out = append(out, N("schema", S(t.key), LS(subs)))
		} else {
			out = append(out, N("type", S(t.key), S(t.name), LS(subs)))
		}
	}
	return LS(out)
}

var builtinDirs = map[string]bool{"skip": true, "include": true, "deprecated": true, "go": true}

// dropBuiltins removes, from the lists answered for `types` and `directives` of __Schema, the entries
// the library itself contributes (the __ meta-types and the four built-in directives): the model holds
// the user's schema and the eight built-in scalars.
func dropBuiltins(tops []*iTop, data map[string]interface{}) {
	for _, t := range tops {
		if !t.schema {
			continue
		}
		obj, _ := data[t.key].(map[string]interface{})
		if obj == nil {
			continue
		}
		for _, s := range t.subs {
			list, _ := obj[s.key].([]interface{})
			if list == nil {
				continue
			}
			var keep []interface{}
			for _, e := range list {
				m, _ := e.(map[string]interface{})
				name, _ := m["name"].(string)
				if s.mf == "types" && strings.HasPrefix(name, "__") {
					continue
				}
				if s.mf == "directives" && builtinDirs[name] {
					continue
				}
				keep = append(keep, e)
			}
			if s.mf == "types" || s.mf == "directives" {
				if keep == nil {
					keep = []interface{}{}
				}
				obj[s.key] = keep
			}
		}
	}
}

// ---- application data under the three strategies ---------------------------------------------------

type reflQ struct{ A int }
type reflRoot struct {
	Query        *reflQ
	Mutation     *reflQ
	Subscription *reflQ
}

type mapAny struct{}

func (mapAny) Resolve(obj interface{}, f *ggql.Field, args map[string]interface{}) (interface{}, error) {
	if m, ok := obj.(map[string]interface{}); ok {
		return m[f.Name], nil
	}
	return nil, nil
}

func (mapAny) Len(list interface{}) int {
	if l, ok := list.([]interface{}); ok {
		return len(l)
	}
	return 0
}

func (mapAny) Nth(list interface{}, i int) (interface{}, error) {
	if l, ok := list.([]interface{}); ok && 0 <= i && i < len(l) {
		return l[i], nil
	}
	return nil, fmt.Errorf("not a list")
}

func c17Root(strategy string) *ggql.Root {
	switch strategy {
	case "reflect":
		return ggql.NewRoot(&reflRoot{Query: &reflQ{}, Mutation: &reflQ{}, Subscription: &reflQ{}})
	case "any":
		root := ggql.NewRoot(map[string]interface{}{"query": map[string]interface{}{}, "mutation": map[string]interface{}{}, "subscription": map[string]interface{}{}})
		root.AnyResolver = mapAny{}
		return root
	}
	return newLoadRoot()
}

func c17Schema(r *Rng) *sSet {
	set := genSet(r, sdlOpts{defaults: true, dirUses: r.Chance(50), schemaBlk: r.Chance(20)})
	// vary the deprecations: with and without a reason, on fields and enum values alike
	flip := func(ds []sDirUse) {
		for i := range ds {
			if ds[i].name == "deprecated" {
				switch r.Intn(3) {
				case 0:
					ds[i].args = nil
				case 1:
					ds[i].args = [][2]string{{"reason", strconv.Quote(Pick(r, []string{"old", "use other", ""}))}}
				}
			}
		}
	}
	for _, d := range set.defs {
		for _, f := range d.fields {
			flip(f.dirs)
		}
		for _, v := range d.values {
			flip(v.dirs)
		}
	}
	// operation roots beyond query
	for _, op := range []string{"Mutation", "Subscription"} {
		if r.Chance(35) {
			d := &sDef{kind: "object", name: op, desc: genDesc(r, false), fields: []*sField{{name: strings.ToLower(op[:1]) + "0", t: named("Int")}}}
			set.defs = append(set.defs, d)
			set.by[op] = d
			// a schema block names the root or leaves it out: a type that is merely *called* Mutation is then not
			// the mutation root
			for _, sd := range set.defs {
				if sd.kind == "schema" && r.Chance(55) {
					sd.roots = append(sd.roots, [2]string{strings.ToLower(op), op})
				}
			}
		}
	}
	// the schema block must come after the types it names in this generator's output
	var blocks, rest []*sDef
	for _, d := range set.defs {
		if d.kind == "schema" {
			blocks = append(blocks, d)
		} else {
			rest = append(rest, d)
		}
	}
	set.defs = append(rest, blocks...)
	return set
}

func c17Case(o *Out, r *Rng, set *sSet, sdl string, strategy string, tops []*iTop, label string) {
	root := c17Root(strategy)
	if err := safeParse(root, sdl); err != nil {
		o.Count("load-failed")
		return
	}
	doc := topsText(tops)
	res := safeResolve(root, doc, "", nil)
	data, _ := res["data"].(map[string]interface{})
	if data != nil {
		dropBuiltins(tops, data)
	}
	nerr := 0
	if es, ok := res["errors"].([]interface{}); ok {
		nerr = len(es)
	}
	var dt T
	if data == nil {
		dt = N("null")
	} else {
		dt = jTermL(data)
	}
	o.Count("strategy=" + strategy)
	o.Count("query=" + label)
	if nerr > 0 {
		o.Count("with-errors")
	}
	var firstErr string
	if es, ok := res["errors"].([]interface{}); ok && len(es) > 0 {
		firstErr = fmt.Sprint(es[0])
	}
	o.Emit(Case{
		Term:       N("c17", A(strategy), set.introTerm(), topsTerm(tops)),
		Obs:        N("obs", dt, I(int64(nerr))),
		Meta:       map[string]interface{}{"sdl": sdl, "query": doc, "strategy": strategy, "first_error": firstErr},
		Nontrivial: true,
	})
}

func init() {
	props["C17"] = func(o *Out, rng *Rng, tier string) {
		c17RegisterField(o)
		c17AfterRefusedLoad(o)
		c17Repeated(o)
		rounds := 40
		if tier == "thorough" {
			rounds = 1500
		}
		for k := 0; k < rounds; k++ {
			r := rng.Fork()
			set := c17Schema(r)
			sdl := set.sdl(true)
			var names []string
			for _, d := range set.defs {
				if d.kind != "schema" && d.kind != "directive" {
					names = append(names, d.name)
				}
			}
			names = append(names, "Int", "String", "Nowhere", "__Nope")
			// names of directives are not names of types: `__type` answers null (GetType also finds directives)
			names = append(names, "deprecated", "skip")
			for _, d := range set.defs {
				if d.kind == "directive" {
					names = append(names, d.name)
				}
			}
			queries := []struct {
				label string
				tops  []*iTop
			}{{"full-with-deprecated", fullQuery(true)}, {"full-without-deprecated", fullQuery(false)}}
			for i := 0; i < 3; i++ {
				var tops []*iTop
				used := map[string]bool{}
				n := 1 + r.Intn(3)
				for j := 0; j < n; j++ {
					var t *iTop
					if r.Chance(40) {
						t = &iTop{key: "__schema", schema: true, subs: genMetaSels(r, "__Schema", 4, false)}
						for _, s := range t.subs {
							if s.mf == "types" || s.mf == "directives" {
								hasName := false
								for _, c := range s.subs {
									if c.key == "name" && c.mf == "name" {
										hasName = true
									}
								}
								if !hasName {
									var keep []*iSel
									for _, c := range s.subs {
										if c.key != "name" {
											keep = append(keep, c)
										}
									}
									s.subs = append([]*iSel{{key: "name", mf: "name"}}, keep...)
								}
							}
						}
					} else {
						t = &iTop{key: "__type", name: Pick(r, names), subs: genMetaSels(r, "__Type", 4, false)}
					}
					if used[t.key] {
						t.key = fmt.Sprintf("t%d", j)
					}
					used[t.key] = true
					tops = append(tops, t)
				}
				queries = append(queries, struct {
					label string
					tops  []*iTop
				}{"random-selection", tops})
			}
			for _, q := range queries {
				for _, st := range []string{"iface", "reflect", "any"} {
					c17Case(o, r, set, sdl, st, q.tops, q.label)
				}
			}
		}
	}
}

// ---- resolver set-up calls that must leave the schema as it is ------------------------------------------
//
// "The answer is the same whichever resolver strategy the application uses": binding a field to a Go method
// (RegisterField, with the method's argument order) configures the reflection strategy, it does not define the
// schema.  Whatever the call is given, and whether it succeeds or reports an error, the arguments introspection
// lists for the field are the declared ones.  Fixed table, every run.

type c17RQ struct{}

func (q *c17RQ) A(x, y int32, s string) int32 { return x + y }

type c17RTop struct{ Query *c17RQ }

func c17RegisterField(o *Out) {
	const sdl = "type Query { a(x: Int, y: Int, s: String): Int }"
	const q = `{ __type(name: "Query") { fields { name args { name } } } }`
	argNames := func(root *ggql.Root) string {
		res := safeResolve(root, q, "", nil)
		var names []string
		data, _ := res["data"].(map[string]interface{})
		ty, _ := data["__type"].(map[string]interface{})
		fs, _ := ty["fields"].([]interface{})
		for _, f := range fs {
			fm, _ := f.(map[string]interface{})
			as, _ := fm["args"].([]interface{})
			for _, a := range as {
				am, _ := a.(map[string]interface{})
				names = append(names, fmt.Sprint(am["name"]))
			}
		}
		sort.Strings(names)
		return strings.Join(names, ",")
	}
	for _, args := range [][]string{{"x", "y", "s"}, {"s", "x", "y"}, {"x", "x", "y"}, {"x", "y"}, {"x", "y", "zz"}, {"y", "y", "y"}} {
		root := ggql.NewRoot(&c17RTop{Query: &c17RQ{}})
		if err := root.ParseString(sdl); err != nil {
			panic(err)
		}
		if err := root.RegisterType(&c17RQ{}, "Query"); err != nil {
			panic(err)
		}
		before := argNames(root)
		err := root.RegisterField("Query", "a", "A", args...)
		after := argNames(root)
		es := ""
		if err != nil {
			es = err.Error()
		}
		o.Count("RegisterField calls")
		o.Emit(Case{Term: N("c17r", S(strings.Join(args, " "))), Obs: N("obs", B(before == after)),
			Meta: map[string]interface{}{"call": fmt.Sprintf("RegisterField(Query, a, A, %v)", args), "error": es, "args_before": before, "args_after": after}, Nontrivial: true})
	}
}

// ---- introspection after a refused load --------------------------------------------------------------
//
// "For every accepted schema … describe exactly that schema": the accepted schema is what the accepted loads
// defined, whatever refused loads came in between.  Fixed histories, every run; the answer must equal that of a
// root that only ever saw the accepted loads.

func c17AfterRefusedLoad(o *Out) {
	const q = `{ __schema { types { name kind possibleTypes { name } interfaces { name } fields { name } enumValues { name } } mutationType { name } } node: __type(name: "Node") { possibleTypes { name } } ghost: __type(name: "Ghost") { name } }`
	for _, h := range []struct {
		name     string
		accepted []string
		refused  string // loaded (and refused) after the accepted loads
	}{
		{"new implementer in a refused load", []string{"interface Node { id: ID }\ntype Song implements Node { id: ID }\ntype Query { n: Node }", "type Album implements Node { id: ID }"},
			"type Ghost implements Node { id: ID }\ntype Empty { }"},
		{"extend … implements in a refused load", []string{"interface Node { id: ID }\ntype Song implements Node { id: ID }\ntype Plain { id: ID }\ntype Query { n: Node p: Plain }"},
			"extend type Plain implements Node { extra: Int }\ntype Empty { }"},
		{"union member and enum value in a refused load", []string{"type A { x: Int }\ntype B { y: Int }\nunion U = A\nenum E { ONE }\ntype Query { u: U e: E }"},
			"extend union U = B\nextend enum E { TWO }\ntype Empty { }"},
	} {
		root, control := newLoadRoot(), newLoadRoot()
		refusedErr := ""
		for _, doc := range h.accepted {
			if err := safeParse(root, doc); err != nil {
				panic("c17 history: " + err.Error())
			}
			if err := safeParse(control, doc); err != nil {
				panic("c17 history: " + err.Error())
			}
		}
		if err := safeParse(root, h.refused); err != nil {
			refusedErr = err.Error()
		}
		if refusedErr == "" {
			o.Count("refused-load-accepted")
			continue
		}
		got, want := canon(safeResolve(root, q, "", nil)), canon(safeResolve(control, q, "", nil))
		o.Count("introspection after a refused load")
		o.Emit(Case{Term: N("c17r", S("refused load: "+h.name)), Obs: N("obs", B(got == want)),
			Meta: map[string]interface{}{"history": h.name, "refused": h.refused, "error": refusedErr, "answer": got, "expected": want}, Nontrivial: true})
	}
}

// ---- the same listing asked twice --------------------------------------------------------------------
//
// Introspection is a read: `enumValues` / `fields` with and without `includeDeprecated`, in one request and in
// successive requests on one root, each answer the one a fresh root gives.  (A deprecated member that is not the
// last one, listings without the deprecated members first: a filter that works on the schema's own list shows
// here.)  Fixed table, every run.

func c17Repeated(o *Out) {
	const sdl = "enum Color { RED GREEN @deprecated BLUE BLACK }\ntype Query { a: Int b: Int @deprecated(reason: \"old\") c: Color d: Int }\ninterface Named { x: Int @deprecated y: Int z: Int }"
	qs := []string{
		`{ __type(name: "Color") { enumValues { name } } }`,
		`{ __type(name: "Color") { enumValues(includeDeprecated: true) { name isDeprecated } } }`,
		`{ a: __type(name: "Color") { enumValues { name } } b: __type(name: "Color") { enumValues(includeDeprecated: true) { name } } c: __type(name: "Color") { enumValues { name } } }`,
		`{ __type(name: "Query") { fields { name } } }`,
		`{ __type(name: "Query") { fields(includeDeprecated: true) { name } } }`,
		`{ a: __type(name: "Named") { fields { name } } b: __type(name: "Named") { fields(includeDeprecated: true) { name } } }`,
		`{ __schema { types { name enumValues(includeDeprecated: true) { name } fields(includeDeprecated: true) { name } } } }`,
	}
	mk := func() *ggql.Root {
		root := newLoadRoot()
		if err := safeParse(root, sdl); err != nil {
			panic("c17 repeated: " + err.Error())
		}
		return root
	}
	root := mk()
	for round := 0; round < 2; round++ {
		for _, q := range qs {
			got, want := canon(safeResolve(root, q, "", nil)), canon(safeResolve(mk(), q, "", nil))
			o.Count("repeated introspection listings")
			o.Emit(Case{Term: N("c17r", S(fmt.Sprintf("round %d: %s", round, q))), Obs: N("obs", B(got == want)),
				Meta: map[string]interface{}{"query": q, "round": round, "answer": got, "fresh_root": want}, Nontrivial: true})
		}
	}
}
