module verif/harness

go 1.21

require github.com/uhn/ggql v0.0.0

replace github.com/uhn/ggql => /repo
