package main

import (
	"bytes"
	"encoding/json"
	"fmt"
	"math"
	"reflect"
	"sort"
	"strconv"
	"strings"
	"unicode/utf8"

	"github.com/uhn/ggql/pkg/ggql"
)

// ---- C18: value text formats round-trip; the JSON writer emits valid JSON --------------------------

var c18Strings = []string{"", "a", "abc def", "quote\"inside", "back\\slash", "new\nline", "tab\ttab", "cr\rlf\n", "bell\a", "\x00nul", "\x1f",
	"é", "日本語", "😀 emoji", "a,b", "#hash", "{brace}", "[bracket]", "$dollar", "true", "null", "\"\"\"", "\\\"", "\\u0041", "/slash", " ", "\x7f"}

// the replacement character itself (valid UTF-8, three bytes) and code points beyond the BMP, printable or not
var c18Unicode = []string{"caf\ufffd", "\ufffd", "\ufffd\ufffd x", "\U000F0001", "tag\U000E0001", "\U0010FFFF", "music \U0001D173", "😀\ufffd"}

var c18Names = []string{"a", "b1", "_x", "Name", "true_", "k2", "z_9", "camelCase"}

func c18Gen(r *Rng, depth int, badKeys bool) interface{} {
	c := r.Intn(100)
	if depth >= 5 && c >= 70 {
		c = r.Intn(70)
	}
	switch {
	case c < 6:
		return nil
	case c < 14:
		return r.Bool()
	case c < 30:
		return Pick(r, []int64{0, 1, -1, 42, -7, 1 << 31, -(1 << 31), 1<<53 + 1, math.MaxInt64, math.MinInt64, 1000000, 123456789012})
	case c < 42:
		return Pick(r, []float64{1.5, -0.25, 3.14159, 1e-7, 1.5e300, -2.5e-300, 0.1, 123456.789, 5e-324, 1.7976931348623157e308, 2.5e+21, 1e21 + 0.5e6})
	case c < 58:
		return Pick(r, c18Strings)
	case c < 64:
		return ggql.Symbol(Pick(r, []string{"RED", "a_b", "X1", "nully", "trueish"}))
	case c < 70:
		return ggql.Var(Pick(r, []string{"v", "var_1", "X"}))
	case c < 85:
		n := r.Intn(4)
		l := make([]interface{}, n)
		for i := range l {
			l[i] = c18Gen(r, depth+1, badKeys)
		}
		return l
	default:
		n := r.Intn(4)
		m := map[string]interface{}{}
		for i := 0; i < n; i++ {
			k := Pick(r, c18Names)
			if badKeys && r.Chance(30) {
				k = Pick(r, []string{"a b", "q\"k", "back\\", "new\nline", "", "é", "1x", "a-b", "x:y"})
			}
			m[k] = c18Gen(r, depth+1, badKeys)
		}
		return m
	}
}

func c18Term(v interface{}) T {
	switch t := v.(type) {
	case nil:
		return N("null")
	case bool:
		return N("bool", B(t))
	case int64:
		return N("int", I(t))
	case int:
		return N("intk", S("int"), I(int64(t)))
	case int8:
		return N("intk", S("int8"), I(int64(t)))
	case int16:
		return N("intk", S("int16"), I(int64(t)))
	case int32:
		return N("intk", S("int32"), I(int64(t)))
	case uint:
		return N("intk", S("uint"), I(int64(t)))
	case uint8:
		return N("intk", S("uint8"), I(int64(t)))
	case uint16:
		return N("intk", S("uint16"), I(int64(t)))
	case uint32:
		return N("intk", S("uint32"), I(int64(t)))
	case uint64:
		return N("intk", S("uint64"), I(int64(t)))
	case float64:
		return N("float", f64bits(t), S(strconv.FormatFloat(t, 'g', -1, 64)))
	case string:
		return N("str", S(t))
	case ggql.Symbol:
		return N("sym", S(string(t)))
	case ggql.Var:
		return N("var", S(string(t)))
	case []interface{}:
		ts := make([]T, len(t))
		for i, x := range t {
			ts[i] = c18Term(x)
		}
		return N("list", ts...)
	case map[string]interface{}:
		keys := make([]string, 0, len(t))
		for k := range t {
			keys = append(keys, k)
		}
		sort.Strings(keys)
		var ts []T
		for _, k := range keys {
			ts = append(ts, N("kv", S(k), c18Term(t[k])))
		}
		return N("map", ts...)
	}
	return N("other", S(fmt.Sprintf("%T", v)))
}

// jsonShape: the structure encoding/json must decode the JSON form to
func jsonShape(v interface{}) interface{} {
	switch t := v.(type) {
	case int64:
		return json.Number(strconv.FormatInt(t, 10))
	case float64:
		return json.Number(strconv.FormatFloat(t, 'g', -1, 64))
	case ggql.Symbol:
		return string(t)
	case ggql.Var:
		return "$" + string(t)
	case string:
		if !utf8.ValidString(t) {
			return fffdPerByte(t)
		}
		return t
	case []interface{}:
		out := make([]interface{}, len(t))
		for i, x := range t {
			out[i] = jsonShape(x)
		}
		return out
	case map[string]interface{}:
		out := map[string]interface{}{}
		for k, x := range t {
			out[k] = jsonShape(x)
		}
		return out
	}
	return v
}

// fffdPerByte: what `for _, r := range s` yields — one U+FFFD per invalid byte
func fffdPerByte(s string) string {
	var b strings.Builder
	for _, r := range s {
		b.WriteRune(r)
	}
	return b.String()
}

// c18Kinded hands the writers every integer as a Go value of some integer kind that holds it (the property speaks
// of integers, not of int64): the text and what it parses back to must not depend on the kind.
var c18KindCounter uint64

func c18Kinded(o *Out, v interface{}) interface{} {
	switch t := v.(type) {
	case int64:
		var fits []interface{}
		fits = append(fits, t)
		if math.MinInt8 <= t && t <= math.MaxInt8 {
			fits = append(fits, int8(t))
		}
		if math.MinInt16 <= t && t <= math.MaxInt16 {
			fits = append(fits, int16(t))
		}
		if math.MinInt32 <= t && t <= math.MaxInt32 {
			fits = append(fits, int32(t), int(t))
		}
		if 0 <= t {
			fits = append(fits, uint64(t), uint(t))
			if t <= math.MaxUint8 {
				fits = append(fits, uint8(t))
			}
			if t <= math.MaxUint16 {
				fits = append(fits, uint16(t))
			}
			if t <= math.MaxUint32 {
				fits = append(fits, uint32(t))
			}
		}
		c18KindCounter++
		k := fits[(uint64(t)*2654435761+c18KindCounter)%uint64(len(fits))]
		o.Count(fmt.Sprintf("integer kind=%T", k))
		return k
	case []interface{}:
		out := make([]interface{}, len(t))
		for i, x := range t {
			out[i] = c18Kinded(o, x)
		}
		return out
	case map[string]interface{}:
		out := map[string]interface{}{}
		for k, x := range t {
			out[k] = c18Kinded(o, x)
		}
		return out
	}
	return v
}

func c18One(o *Out, v interface{}, indent int, sdl bool, class string) {
	var buf bytes.Buffer
	ggql.Sort = true
	var err error
	kv := c18Kinded(o, v)
	if sdl {
		err = ggql.WriteSDLValue(&buf, kv, indent)
	} else {
		err = ggql.WriteJSONValue(&buf, kv, indent)
	}
	text := buf.String()
	rb := N("error")
	func() {
		defer func() {
			if r := recover(); r != nil {
				rb = N("panic")
			}
		}()
		if back, e := ggql.ParseValueString(text); e == nil && err == nil {
			rb = c18Term(back)
		}
	}()
	jok := A("na")
	if !sdl {
		dec := json.NewDecoder(strings.NewReader(text))
		dec.UseNumber()
		var got interface{}
		ok := dec.Decode(&got) == nil && reflect.DeepEqual(got, jsonShape(v))
		if ok {
			// nothing but white space may follow
			var extra interface{}
			ok = dec.Decode(&extra) != nil
		}
		jok = B(ok)
	}
	o.Count(fmt.Sprintf("indent=%d", indent))
	o.Count(map[bool]string{true: "sdl", false: "json"}[sdl])
	o.Count("class=" + class)
	o.Emit(Case{
		Term:       N("c18", c18Term(kv), I(int64(indent)), B(sdl)),
		Obs:        N("obs", S(text), rb, jok),
		Meta:       map[string]interface{}{"value": fmt.Sprintf("%#v", kv), "text": text, "indent": indent, "sdl": sdl},
		Nontrivial: v != nil,
	})
}

func init() {
	props["C18"] = func(o *Out, rng *Rng, tier string) {
		defer func() { ggql.Sort = false }()
		// every single string of the special alphabet, and every pair (thorough), in both formats
		for _, s := range append(append([]string{}, c18Strings...), c18Unicode...) {
			for _, ind := range []int{-1, 0, 2} {
				c18One(o, s, ind, true, "strings")
				c18One(o, s, ind, false, "strings")
			}
		}
		// the same as map keys (JSON member names go through the string writer) and inside lists
		for _, s := range c18Unicode {
			c18One(o, map[string]interface{}{"k": s, "l": []interface{}{s, s}}, -1, true, "strings")
			c18One(o, map[string]interface{}{s: int64(1)}, 2, false, "strings")
		}
		// neighbours: every ordered pair of special strings, and of element kinds, adjacent in a list (separators
		// and delimiters are decided per neighbour in the tight SDL mode)
		for _, a := range c18Strings {
			for _, b := range c18Strings {
				c18One(o, []interface{}{a, b}, -1, true, "neighbours")
			}
		}
		kinds := []func() interface{}{
			func() interface{} { return "" }, func() interface{} { return "x" }, func() interface{} { return int64(1) },
			func() interface{} { return int64(-1) }, func() interface{} { return 1.5 }, func() interface{} { return true },
			func() interface{} { return nil }, func() interface{} { return ggql.Symbol("RED") }, func() interface{} { return ggql.Var("v") },
			func() interface{} { return []interface{}{} }, func() interface{} { return map[string]interface{}{} },
			func() interface{} { return []interface{}{""} }, func() interface{} { return map[string]interface{}{"k": ""} },
		}
		for _, a := range kinds {
			for _, b := range kinds {
				for _, ind := range []int{-1, 0, 2} {
					c18One(o, []interface{}{a(), b(), a()}, ind, true, "neighbours")
					c18One(o, map[string]interface{}{"p": a(), "q": b()}, ind, true, "neighbours")
				}
			}
		}
		if tier == "thorough" {
			for _, a := range c18Strings {
				for _, b := range c18Strings {
					c18One(o, []interface{}{a + b, map[string]interface{}{"k": b + a}}, -1, true, "string-pairs")
					c18One(o, a+b, 0, false, "string-pairs")
				}
			}
		}
		// strings that are not valid UTF-8: only the JSON-validity clause applies (bytes become U+FFFD)
		for _, s := range []string{"\xff", "a\xc3", "\xed\xa0\x80z", "ok\x80\x80", "\xf0\x9f", "\xc0\xaf"} {
			for _, ind := range []int{-1, 0, 2} {
				var buf bytes.Buffer
				_ = ggql.WriteJSONValue(&buf, map[string]interface{}{"k": []interface{}{s, 1}}, ind)
				var got interface{}
				ok := json.Unmarshal(buf.Bytes(), &got) == nil &&
					reflect.DeepEqual(got, map[string]interface{}{"k": []interface{}{fffdPerByte(s), float64(1)}})
				o.Count("class=invalid-utf8")
				o.Emit(Case{Term: N("c18raw", S(s)), Obs: N("obs", B(ok)), Meta: map[string]interface{}{"bytes": fmt.Sprintf("%q", s), "text": buf.String()}, Nontrivial: true})
			}
		}
		n := 2500
		if tier == "thorough" {
			n = 150000
		}
		for i := 0; i < n; i++ {
			r := rng.Fork()
			bad := r.Chance(12)
			v := c18Gen(r, 0, bad)
			class := "values"
			if bad {
				class = "values-with-arbitrary-keys"
			}
			for _, ind := range []int{-1, 0, 1 + r.Intn(4)} {
				c18One(o, v, ind, true, class)
				c18One(o, v, ind, false, class)
			}
		}
	}
}
