package main

import (
	"fmt"
	"reflect"
	"sort"
	"strings"

	"github.com/uhn/ggql/pkg/ggql"
)

// ---- shared generator: schema + data graph + documents (C01, C06, C08, C10, C11) -------------------

type gTRef struct {
	kind string // named | list | nn
	name string
	base *gTRef
}

func (t *gTRef) gql() string {
	switch t.kind {
	case "list":
		return "[" + t.base.gql() + "]"
	case "nn":
		return t.base.gql() + "!"
	}
	return t.name
}
func (t *gTRef) term() T {
	switch t.kind {
	case "list":
		return N("list", t.base.term())
	case "nn":
		return N("nn", t.base.term())
	}
	return N("named", S(t.name))
}
func (t *gTRef) baseName() string {
	if t.kind == "named" {
		return t.name
	}
	return t.base.baseName()
}
func named(n string) *gTRef   { return &gTRef{kind: "named", name: n} }
func listOf(t *gTRef) *gTRef  { return &gTRef{kind: "list", base: t} }
func nonNull(t *gTRef) *gTRef { return &gTRef{kind: "nn", base: t} }

type gArg struct {
	name     string
	required bool
	kind     string // "" (Int) | str | bool
}

func (a gArg) gqlType() string {
	ty := "Int"
	switch a.kind {
	case "str":
		ty = "String"
	case "bool":
		ty = "Boolean"
	}
	if a.required {
		ty += "!"
	}
	return ty
}

type gField struct {
	name string
	t    *gTRef
	args []gArg
}

type gType struct {
	kind    string // object | iface | union | leaf
	name    string
	fields  []*gField
	ifaces  []string
	members []string
}

type gSchema struct {
	types []*gType
	by    map[string]*gType
}

func (s *gSchema) sdl() string {
	var b strings.Builder
	for _, t := range s.types {
		switch t.kind {
		case "object", "iface":
			if t.kind == "object" {
				b.WriteString("type " + t.name)
				if len(t.ifaces) > 0 {
					b.WriteString(" implements " + strings.Join(t.ifaces, " & "))
				}
			} else {
				b.WriteString("interface " + t.name)
			}
			b.WriteString(" {\n")
			for _, f := range t.fields {
				b.WriteString("  " + f.name)
				if len(f.args) > 0 {
					var as []string
					for _, a := range f.args {
						as = append(as, a.name+": "+a.gqlType())
					}
					b.WriteString("(" + strings.Join(as, ", ") + ")")
				}
				b.WriteString(": " + f.t.gql() + "\n")
			}
			b.WriteString("}\n")
		case "union":
			b.WriteString("union " + t.name + " = " + strings.Join(t.members, " | ") + "\n")
		}
	}
	return b.String()
}

func (s *gSchema) term() T {
	var ts []T
	fds := func(fs []*gField) T {
		var out []T
		for _, f := range fs {
			var as []T
			for _, a := range f.args {
				as = append(as, N("arg", S(a.name), B(a.required)))
			}
			out = append(out, N("fd", S(f.name), f.t.term(), LS(as)))
		}
		return LS(out)
	}
	strs := func(xs []string) T {
		var out []T
		for _, x := range xs {
			out = append(out, S(x))
		}
		return LS(out)
	}
	for _, t := range s.types {
		switch t.kind {
		case "object":
			ts = append(ts, N("object", S(t.name), fds(t.fields), strs(t.ifaces)))
		case "iface":
			ts = append(ts, N("iface", S(t.name), fds(t.fields)))
		case "union":
			ts = append(ts, N("union", S(t.name), strs(t.members)))
		case "leaf":
			ts = append(ts, N("leaf", S(t.name)))
		}
	}
	return LS(ts)
}

var gLeafNames = []string{"Int", "String", "Boolean"}

func genSchema(r *Rng) *gSchema {
	s := &gSchema{by: map[string]*gType{}}
	add := func(t *gType) { s.types = append(s.types, t); s.by[t.name] = t }
	for _, l := range gLeafNames {
		add(&gType{kind: "leaf", name: l})
	}
	nObj := 2 + r.Intn(5)
	nIf := r.Intn(3)
	nUn := r.Intn(3)
	var objs, ifs, uns []string
	for i := 0; i < nIf; i++ {
		it := &gType{kind: "iface", name: fmt.Sprintf("I%d", i)}
		nf := 1 + r.Intn(2)
		for j := 0; j < nf; j++ {
			it.fields = append(it.fields, &gField{name: fmt.Sprintf("i%d_%d", i, j), t: named(Pick(r, gLeafNames))})
		}
		add(it)
		ifs = append(ifs, it.name)
	}
	for i := 0; i < nObj; i++ {
		objs = append(objs, fmt.Sprintf("T%d", i))
	}
	for i := 0; i < nUn; i++ {
		u := &gType{kind: "union", name: fmt.Sprintf("U%d", i)}
		for _, o := range objs {
			if r.Chance(50) {
				u.members = append(u.members, o)
			}
		}
		if len(u.members) == 0 {
			u.members = []string{objs[0]}
		}
		add(u)
		uns = append(uns, u.name)
	}
	mkFields := func(prefix string, n int) []*gField {
		var fs []*gField
		for j := 0; j < n; j++ {
			f := &gField{name: fmt.Sprintf("%s%d", prefix, j)}
			var base *gTRef
			switch c := r.Intn(10); {
			case c < 4:
				base = named(Pick(r, gLeafNames))
			case c < 8 || (len(ifs) == 0 && len(uns) == 0):
				base = named(Pick(r, objs))
			case len(ifs) > 0 && (c == 8 || len(uns) == 0):
				base = named(Pick(r, ifs))
			default:
				base = named(Pick(r, uns))
			}
			t := base
			switch r.Intn(8) {
			case 0, 1:
				t = listOf(base)
			case 2:
				t = listOf(listOf(base))
			case 3:
				t = nonNull(base)
			case 4:
				t = nonNull(listOf(nonNull(base)))
			}
			f.t = t
			if r.Chance(25) {
				f.args = append(f.args, gArg{name: "a", required: false})
				if r.Chance(50) {
					f.args = append(f.args, gArg{name: "r", required: true})
				}
			}
			fs = append(fs, f)
		}
		return fs
	}
	for _, o := range objs {
		t := &gType{kind: "object", name: o}
		for _, in := range ifs {
			if r.Chance(45) {
				t.ifaces = append(t.ifaces, in)
				for _, f := range s.by[in].fields {
					t.fields = append(t.fields, &gField{name: f.name, t: f.t})
				}
			}
		}
		t.fields = append(t.fields, mkFields(strings.ToLower(o)+"f", 2+r.Intn(4))...)
		// fields with the same name in several object types (members of one union may define them with
		// different types and arguments, or not at all)
		for _, cf := range mkFields("c", 2) {
			if r.Chance(55) {
				cf.args = nil
				t.fields = append(t.fields, cf)
			}
		}
		add(t)
	}
	q := &gType{kind: "object", name: "Query"}
	q.fields = mkFields("q", 3+r.Intn(4))
	add(q)
	return s
}

// ---- data graph -----------------------------------------------------------------------------------

type gDVal struct {
	kind string // nil | tnil (typed nil pointer of Go type s) | int | str | bool | ref | list
	i    int64
	s    string
	b    bool
	ref  int
	list []*gDVal
}

func (v *gDVal) term() T {
	switch v.kind {
	case "int":
		return N("int", I(v.i))
	case "str":
		return N("str", S(v.s))
	case "bool":
		return N("bool", B(v.b))
	case "ref":
		return N("ref", I(int64(v.ref)))
	case "list":
		ts := make([]T, len(v.list))
		for i, x := range v.list {
			ts[i] = x.term()
		}
		return N("list", ts...)
	}
	return N("nil")
}

type gFieldRes struct {
	val  *gDVal
	errs int
}

type gNode struct {
	goType string
	fields map[string]*gFieldRes
	order  []string
}

type gGraph struct {
	nodes  []*gNode
	byType map[string][]int
}

func (g *gGraph) term() T {
	var ns []T
	for _, n := range g.nodes {
		var fs []T
		for _, k := range n.order {
			fr := n.fields[k]
			fs = append(fs, N("fr", S(k), fr.val.term(), I(int64(fr.errs))))
		}
		ns = append(ns, N("node", S(n.goType), LS(fs)))
	}
	return LS(ns)
}

// concreteFor: object types a value of static type `name` may have
func (s *gSchema) concreteFor(name string) []string {
	t := s.by[name]
	switch t.kind {
	case "object":
		return []string{name}
	case "iface":
		var out []string
		for _, o := range s.types {
			if o.kind == "object" {
				for _, i := range o.ifaces {
					if i == name {
						out = append(out, o.name)
					}
				}
			}
		}
		return out
	case "union":
		return t.members
	}
	return nil
}

func genGraph(r *Rng, s *gSchema) *gGraph {
	g := &gGraph{byType: map[string][]int{}}
	for _, t := range s.types {
		if t.kind != "object" {
			continue
		}
		n := 1 + r.Intn(3)
		if t.name == "Query" {
			n = 1
		}
		for i := 0; i < n; i++ {
			g.byType[t.name] = append(g.byType[t.name], len(g.nodes))
			g.nodes = append(g.nodes, &gNode{goType: t.name, fields: map[string]*gFieldRes{}})
		}
	}
	var gen func(t *gTRef, depth int) *gDVal
	gen = func(t *gTRef, depth int) *gDVal {
		if t.kind != "nn" && r.Chance(8) {
			return &gDVal{kind: "nil"}
		}
		switch t.kind {
		case "nn":
			return gen(t.base, depth)
		case "list":
			n := r.Intn(4)
			l := &gDVal{kind: "list"}
			for i := 0; i < n; i++ {
				l.list = append(l.list, gen(t.base, depth+1))
			}
			return l
		}
		switch t.name {
		case "Int":
			return &gDVal{kind: "int", i: int64(r.Intn(200) - 100)}
		case "String":
			return &gDVal{kind: "str", s: Pick(r, []string{"a", "b", "héllo", "", "x y"})}
		case "Boolean":
			return &gDVal{kind: "bool", b: r.Bool()}
		}
		cs := s.concreteFor(t.name)
		if len(cs) == 0 {
			return &gDVal{kind: "nil"}
		}
		c := Pick(r, cs)
		if r.Chance(6) {
			return &gDVal{kind: "tnil", s: c} // a nil *T: null to GraphQL, not == nil to Go
		}
		return &gDVal{kind: "ref", ref: Pick(r, g.byType[c])}
	}
	for _, n := range g.nodes {
		for _, f := range s.by[n.goType].fields {
			n.fields[f.name] = &gFieldRes{val: gen(f.t, 0)}
			n.order = append(n.order, f.name)
		}
	}
	return g
}

// ---- real nodes: one Go type per GraphQL object type ----------------------------------------------

type gWorld struct {
	g     *gGraph
	objs  []interface{}
	calls *[]T
	callN *int
	// lists are long-lived values of the data graph: the same Go slice is handed out on every call
	lists map[*gDVal]interface{}
}

type gnode struct {
	w   *gWorld
	idx int
}

type groupErr []error

// gSharedErr: failing resolvers return the shared sentinel below instead of a fresh error (set per case by C06)
var gSharedErr bool
var gSentinelErr = &ggql.Error{Base: fmt.Errorf("boom")}

func (n *gnode) Resolve(f *ggql.Field, args map[string]interface{}) (interface{}, error) {
	*n.w.calls = append(*n.w.calls, N("call", I(int64(n.idx)), S(f.Name)))
	fr := n.w.g.nodes[n.idx].fields[f.Name]
	if fr == nil {
		return nil, nil
	}
	var err error
	if fr.errs == 1 && gSharedErr {
		// one *ggql.Error value returned by every failing invocation, as an application's sentinel error is
		err = gSentinelErr
	} else if fr.errs == 1 {
		err = fmt.Errorf("boom")
	} else if fr.errs > 1 {
		var es ggql.Errors
		for i := 0; i < fr.errs; i++ {
			es = append(es, fmt.Errorf("boom %d", i))
		}
		err = es
	}
	return n.w.goValue(fr.val), err
}

func (w *gWorld) goValue(v *gDVal) interface{} {
	switch v.kind {
	case "int":
		return int32(v.i)
	case "str":
		return v.s
	case "bool":
		return v.b
	case "ref":
		return w.objs[v.ref]
	case "tnil":
		return typedNil(v.s)
	case "tnilmap":
		return map[string]interface{}(nil) // a nil map with a type: null to GraphQL
	case "tnilslice":
		return []*T0(nil)
	case "list":
		if w.lists == nil {
			w.lists = map[*gDVal]interface{}{}
		}
		if l, ok := w.lists[v]; ok {
			return l
		}
		l := make([]interface{}, len(v.list))
		for i, x := range v.list {
			l[i] = w.goValue(x)
		}
		var out interface{} = l
		// a homogeneous list of objects is a typed Go slice half of the time ([]*T0 …): the reflection arm of resolveList
		if len(l) > 0 && len(v.list)%2 == 0 {
			var et reflect.Type
			same := true
			for _, x := range v.list {
				if x.kind != "ref" && x.kind != "tnil" {
					same = false
					break
				}
				var tt reflect.Type
				if x.kind == "ref" {
					tt = reflect.TypeOf(w.objs[x.ref])
				} else {
					tt = reflect.TypeOf(typedNil(x.s))
				}
				if et == nil {
					et = tt
				} else if et != tt {
					same = false
				}
			}
			if same && et != nil {
				sl := reflect.MakeSlice(reflect.SliceOf(et), len(l), len(l))
				for i := range l {
					sl.Index(i).Set(reflect.ValueOf(l[i]))
				}
				out = sl.Interface()
			}
		}
		w.lists[v] = out
		return out
	}
	return nil
}

func typedNil(goType string) interface{} {
	switch goType {
	case "T0":
		return (*T0)(nil)
	case "T1":
		return (*T1)(nil)
	case "T2":
		return (*T2)(nil)
	case "T3":
		return (*T3)(nil)
	case "T4":
		return (*T4)(nil)
	case "T5":
		return (*T5)(nil)
	case "T6":
		return (*T6)(nil)
	}
	return nil
}

type T0 struct{ gnode }
type T1 struct{ gnode }
type T2 struct{ gnode }
type T3 struct{ gnode }
type T4 struct{ gnode }
type T5 struct{ gnode }
type T6 struct{ gnode }
type QueryNode struct{ gnode }

type gRootObj struct{ q interface{} }

func (r *gRootObj) Resolve(f *ggql.Field, args map[string]interface{}) (interface{}, error) {
	if f.Name == "query" || f.Name == "mutation" {
		return r.q, nil
	}
	return nil, nil
}

func newWorld(s *gSchema, g *gGraph) (*ggql.Root, *gWorld, int) {
	calls := []T{}
	w := &gWorld{g: g, calls: &calls}
	qi := 0
	for i, n := range g.nodes {
		gn := gnode{w: w, idx: i}
		var o interface{}
		switch n.goType {
		case "T0":
			o = &T0{gn}
		case "T1":
			o = &T1{gn}
		case "T2":
			o = &T2{gn}
		case "T3":
			o = &T3{gn}
		case "T4":
			o = &T4{gn}
		case "T5":
			o = &T5{gn}
		case "T6":
			o = &T6{gn}
		default:
			o = &QueryNode{gn}
			qi = i
		}
		w.objs = append(w.objs, o)
	}
	root := ggql.NewRoot(&gRootObj{q: w.objs[qi]})
	if err := root.ParseString(s.sdl()); err != nil {
		panic(fmt.Sprintf("generated schema rejected: %v\n%s", err, s.sdl()))
	}
	// pre-register every object type (the by-name cold path is probed separately: D51)
	for _, t := range s.types {
		if t.kind == "object" && t.name != "Query" {
			if ids := g.byType[t.name]; len(ids) > 0 {
				if err := root.RegisterType(w.objs[ids[0]], t.name); err != nil {
					panic(err)
				}
			}
		}
	}
	return root, w, qi
}

// ---- documents ------------------------------------------------------------------------------------

type gDir struct {
	name string // skip | include
	src  c09Src
	vn   string
}

type gSel struct {
	kind   string // field | inline | spread
	alias  string
	name   string
	args   []gArgVal
	dirs   []gDir
	sels   []*gSel
	cond   string // inline / fragment condition ("" = none)
	spread string // fragment name
}

type gArgVal struct {
	name   string
	lit    string
	isNull bool
}

type gFrag struct {
	name string
	cond string
	sels []*gSel
	done bool // generation complete (may be spread again)
}

type gOp struct {
	name string
	kind string
	sels []*gSel
}

type gDoc struct {
	ops     []*gOp
	frags   []*gFrag
	vdefs   []string
	vars    map[string]interface{}
	vt      []T
	nvar    int
	noVars  bool
	fewDirs bool
}

type docOpts struct {
	collisions        bool // allow repeated response keys
	abstract          bool // fragments on related / unrelated types (not only the container type)
	maxDepth          int
	nestedFrags       bool // named fragments spread other named fragments and are spread more than once (acyclic)
	unionMemberFields bool // (invalid documents) a field of a member type selected directly under a union-typed field
	anonAmongOthers   bool // sometimes leave one of several operations without a name (C01)
	unknownOp         bool // sometimes pass an operation name the document does not define
	fewDirs           bool // at most one, literal-conditioned directive per selection
	allArgs           bool // supply every declared argument (the feature set common to the three strategies)
}

func (d *gDoc) genDirs(r *Rng) []gDir {
	var out []gDir
	if !r.Chance(20) {
		return nil
	}
	n := 1 + r.Intn(2)
	if d.fewDirs {
		n = 1
	}
	for i := 0; i < n; i++ {
		name := "skip"
		if r.Bool() {
			name = "include"
		}
		src := c09Src(1 + r.Intn(6))
		if d.noVars {
			src = c09Src(1 + r.Intn(2))
		}
		gd := gDir{name: name, src: src}
		if src >= sVarT {
			gd.vn = fmt.Sprintf("d%d", d.nvar)
			d.nvar++
			b := src == sVarT || src == sDefT
			switch src {
			case sVarT, sVarF:
				d.vdefs = append(d.vdefs, "$"+gd.vn+": Boolean")
				d.vars[gd.vn] = b
			case sDefT, sDefF:
				d.vdefs = append(d.vdefs, fmt.Sprintf("$%s: Boolean = %v", gd.vn, b))
			}
			d.vt = append(d.vt, N("v", S(gd.vn), B(b)))
		}
		out = append(out, gd)
	}
	return out
}

func (d *gDoc) genSels(r *Rng, s *gSchema, ty string, depth int, o docOpts, inFrag bool) []*gSel {
	t := s.by[ty]
	var fields []*gField
	switch t.kind {
	case "object", "iface":
		fields = t.fields
	case "union":
		// a union has no fields of its own: only __typename and fragments may be selected on it.  (As coded at first
		// ggql resolved a field selected directly there against the member type of each value — D103; documents
		// doing that are not valid GraphQL and are generated only as C10 faults: o.unionMemberFields.)
		if o.unionMemberFields && r.Chance(60) {
			seen := map[string]bool{}
			ms := append([]string{}, t.members...)
			for i := range ms {
				j := i + r.Intn(len(ms)-i)
				ms[i], ms[j] = ms[j], ms[i]
			}
			for _, m := range ms {
				for _, f := range s.by[m].fields {
					req := false
					for _, a := range f.args {
						req = req || a.required
					}
					if !seen[f.name] && !req {
						seen[f.name] = true
						fields = append(fields, f)
					}
				}
			}
		}
	}
	var out []*gSel
	n := 1 + r.Intn(4)
	for i := 0; i < n; i++ {
		c := r.Intn(100)
		switch {
		case c < 8:
			sel := &gSel{kind: "field", name: "__typename", dirs: d.genDirs(r)}
			if r.Chance(30) {
				sel.alias = "tn"
			}
			out = append(out, sel)
		case c < 70 && len(fields) > 0:
			f := Pick(r, fields)
			sel := &gSel{kind: "field", name: f.name, dirs: d.genDirs(r)}
			if r.Chance(25) {
				if o.collisions && r.Chance(40) {
					sel.alias = "k"
				} else {
					sel.alias = Pick(r, []string{fmt.Sprintf("al%d", r.Intn(1000)), "data", "errors", "query", fmt.Sprintf("al%d", r.Intn(1000))})
				}
			}
			for _, a := range f.args {
				if t.kind == "union" {
					// no arguments on a field selected directly under a union: Field.Args is re-ordered once, for the
					// member type met first (sortArgs through Field.ConType), which the stateless walk model does not
					// follow (DESIGN.md D61)
					break
				}
				if a.required || o.allArgs || r.Chance(50) {
					lit := fmt.Sprint(r.Intn(9))
					switch a.kind {
					case "str":
						lit = fmt.Sprintf("%q", Pick(r, []string{"x", "", "a b", "é"}))
					case "bool":
						lit = fmt.Sprint(r.Bool())
					}
					sel.args = append(sel.args, gArgVal{name: a.name, lit: lit})
				}
			}
			bn := f.t.baseName()
			if s.by[bn].kind != "leaf" {
				if depth >= o.maxDepth {
					continue // no room for the mandatory sub-selection
				}
				sel.sels = d.genSels(r, s, bn, depth+1, o, inFrag)
			}
			out = append(out, sel)
		case c < 85:
			// inline fragment
			sel := &gSel{kind: "inline", dirs: d.genDirs(r)}
			cond := ty
			if r.Chance(25) {
				cond = ""
			} else if o.abstract && r.Chance(60) {
				cond = d.pickCond(r, s, ty)
			}
			sel.cond = cond
			ct := ty
			if cond != "" {
				ct = cond
			}
			if s.by[ct].kind == "union" {
				sel.sels = []*gSel{{kind: "field", name: "__typename"}}
			} else {
				sel.sels = d.genSels(r, s, ct, depth, o, inFrag)
			}
			out = append(out, sel)
		case (!inFrag || (o.nestedFrags && len(d.frags) < 6 && r.Chance(40))) && depth <= 2:
			// named fragment
			cond := ty
			if o.abstract && r.Chance(50) {
				cond = d.pickCond(r, s, ty)
			}
			// (nestedFrags) a fragment that is already complete is spread again — from another place of the
			// document, from another fragment (a diamond), next to itself: none of that is a cycle
			if o.nestedFrags && r.Chance(35) {
				var done []*gFrag
				for _, f := range d.frags {
					if f.done && f.cond == cond {
						done = append(done, f)
					}
				}
				if len(done) > 0 {
					out = append(out, &gSel{kind: "spread", spread: Pick(r, done).name, dirs: d.genDirs(r)})
					continue
				}
			}
			fr := &gFrag{name: fmt.Sprintf("F%d", len(d.frags)), cond: cond}
			d.frags = append(d.frags, fr)
			if s.by[cond].kind == "union" {
				fr.sels = []*gSel{{kind: "field", name: "__typename"}}
			} else {
				fr.sels = d.genSels(r, s, cond, depth, o, true)
			}
			fr.done = true
			out = append(out, &gSel{kind: "spread", spread: fr.name, dirs: d.genDirs(r)})
		}
	}
	if len(out) == 0 {
		out = append(out, &gSel{kind: "field", name: "__typename"})
	}
	if !o.collisions {
		out = dedupKeys(out)
	}
	return out
}

// pickCond: a type related to ty (interfaces it implements, unions containing it, implementers /
// members when ty is abstract) or an unrelated object type
func (d *gDoc) pickCond(r *Rng, s *gSchema, ty string) string {
	var rel []string
	t := s.by[ty]
	if t.kind == "object" {
		rel = append(rel, t.ifaces...)
		for _, u := range s.types {
			if u.kind == "union" {
				for _, m := range u.members {
					if m == ty {
						rel = append(rel, u.name)
					}
				}
			}
		}
	} else {
		rel = append(rel, s.concreteFor(ty)...)
	}
	if len(rel) > 0 && r.Chance(70) {
		return Pick(r, rel)
	}
	var objs []string
	for _, x := range s.types {
		if x.kind == "object" && x.name != "Query" {
			objs = append(objs, x.name)
		}
	}
	return Pick(r, objs)
}

func selKey(s *gSel) string {
	if s.alias != "" {
		return s.alias
	}
	return s.name
}

// dedupKeys keeps response keys distinct at one level (fragments are left alone: their keys are
// checked by the model's guard)
func dedupKeys(sels []*gSel) []*gSel {
	seen := map[string]bool{}
	var out []*gSel
	for _, s := range sels {
		if s.kind == "field" {
			k := selKey(s)
			if seen[k] {
				continue
			}
			seen[k] = true
		}
		out = append(out, s)
	}
	return out
}

func dirText(ds []gDir) string {
	var out []string
	for _, d := range ds {
		switch d.src {
		case sLitT:
			out = append(out, "@"+d.name+"(if: true)")
		case sLitF:
			out = append(out, "@"+d.name+"(if: false)")
		default:
			out = append(out, "@"+d.name+"(if: $"+d.vn+")")
		}
	}
	if len(out) == 0 {
		return ""
	}
	return " " + strings.Join(out, " ")
}

func dirTerms(ds []gDir) T {
	var out []T
	for _, d := range ds {
		wn := d.name
		if wn == "include" {
			wn = "incl"
		}
		switch d.src {
		case sLitT:
			out = append(out, N("d", A(wn), N("lit", B(true))))
		case sLitF:
			out = append(out, N("d", A(wn), N("lit", B(false))))
		default:
			out = append(out, N("d", A(wn), N("var", S(d.vn))))
		}
	}
	return LS(out)
}

func selsText(sels []*gSel) string {
	var parts []string
	for _, s := range sels {
		switch s.kind {
		case "field":
			t := s.name
			if s.alias != "" {
				t = s.alias + ": " + s.name
			}
			if len(s.args) > 0 {
				var as []string
				for _, a := range s.args {
					as = append(as, a.name+": "+a.lit)
				}
				t += "(" + strings.Join(as, ", ") + ")"
			}
			t += dirText(s.dirs)
			if len(s.sels) > 0 {
				t += " " + selsText(s.sels)
			}
			parts = append(parts, t)
		case "inline":
			t := "..."
			if s.cond != "" {
				t += " on " + s.cond
			}
			t += dirText(s.dirs) + " " + selsText(s.sels)
			parts = append(parts, t)
		case "spread":
			parts = append(parts, "..."+s.spread+dirText(s.dirs))
		}
	}
	return "{ " + strings.Join(parts, " ") + " }"
}

func (d *gDoc) selsTerm(sels []*gSel) T {
	var out []T
	for _, s := range sels {
		switch s.kind {
		case "field":
			var as []T
			for _, a := range s.args {
				as = append(as, N("arg", S(a.name), B(a.isNull)))
			}
			out = append(out, N("field", S(s.alias), S(s.name), LS(as), dirTerms(s.dirs), d.selsTerm(s.sels)))
		case "inline":
			c := A("none")
			if s.cond != "" {
				c = S(s.cond)
			}
			out = append(out, N("inline", c, dirTerms(s.dirs), d.selsTerm(s.sels), A("none")))
		case "spread":
			var fr *gFrag
			for _, f := range d.frags {
				if f.name == s.spread {
					fr = f
				}
			}
			out = append(out, N("inline", S(fr.cond), dirTerms(s.dirs), d.selsTerm(fr.sels), S(fr.name)))
		}
	}
	return LS(out)
}

func (d *gDoc) text() string {
	var b strings.Builder
	for i, op := range d.ops {
		if op.name == "" && len(d.vdefs) == 0 && op.kind == "query" {
			b.WriteString(selsText(op.sels))
		} else {
			b.WriteString(op.kind + " " + op.name)
			if len(d.vdefs) > 0 && i == 0 {
				b.WriteString("(" + strings.Join(d.vdefs, ", ") + ")")
			}
			b.WriteString(" " + selsText(op.sels))
		}
		b.WriteString("\n")
	}
	for _, f := range d.frags {
		b.WriteString("fragment " + f.name + " on " + f.cond + " " + selsText(f.sels) + "\n")
	}
	return b.String()
}

func (d *gDoc) opsTerm() T {
	var out []T
	for _, op := range d.ops {
		out = append(out, N("op", S(op.name), A(op.kind), d.selsTerm(op.sels)))
	}
	return LS(out)
}

func genDoc(r *Rng, s *gSchema, o docOpts) *gDoc {
	d := &gDoc{vars: map[string]interface{}{}, fewDirs: o.fewDirs}
	nops := 1
	if r.Chance(20) {
		nops = 2 + r.Intn(2)
		d.noVars = true
	}
	// (sometimes) one operation without a name next to named ones: not a valid document
	anon := -1
	if nops > 1 && o.anonAmongOthers && r.Chance(30) {
		anon = r.Intn(nops)
	}
	for i := 0; i < nops; i++ {
		op := &gOp{kind: "query"}
		if (nops > 1 || r.Chance(40)) && i != anon {
			op.name = fmt.Sprintf("Op%d", i)
		}
		if i > 0 {
			// variables are declared on the first operation only: keep later operations directive-free
			saved := d.nvar
			_ = saved
		}
		op.sels = d.genSels(r, s, "Query", 0, o, false)
		d.ops = append(d.ops, op)
	}
	return d
}

// ---- observation ------------------------------------------------------------------------------------

func jTerm(v interface{}) T {
	if ggql.IsNil(v) {
		return N("null")
	}
	switch t := v.(type) {
	case int32:
		return N("int", I(int64(t)))
	case int:
		return N("int", I(int64(t)))
	case int64:
		return N("int", I(t))
	case string:
		return N("str", S(t))
	case bool:
		return N("bool", B(t))
	case []interface{}:
		ts := make([]T, len(t))
		for i, x := range t {
			ts[i] = jTerm(x)
		}
		return N("list", ts...)
	case map[string]interface{}:
		keys := make([]string, 0, len(t))
		for k := range t {
			keys = append(keys, k)
		}
		sort.Strings(keys)
		var ts []T
		for _, k := range keys {
			ts = append(ts, N("kv", S(k), jTerm(t[k])))
		}
		return N("obj", ts...)
	}
	return N("raw")
}

func errClass(msg string) string {
	word := func(after string) string {
		i := strings.Index(msg, after)
		rest := strings.TrimSpace(msg[:i])
		f := strings.Fields(rest)
		return f[len(f)-1]
	}
	switch {
	case strings.Contains(msg, "boom"):
		return "resolver"
	case strings.Contains(msg, "is not a field in"):
		return "not-a-field:" + word("is not a field in")
	case strings.Contains(msg, "is required but missing"):
		return "required:" + word("is required but missing")
	case strings.Contains(msg, "is not an argument to"):
		return "unknown-arg:" + word("is not an argument to")
	case strings.Contains(msg, "is not a valid output leaf type"):
		return "no-selection"
	case strings.Contains(msg, "is not a list type"):
		return "not-a-list"
	case strings.Contains(msg, "can not coerce"):
		return "leaf"
	case strings.Contains(msg, "is not a valid 'if' value"):
		return "directive"
	case strings.Contains(msg, "could not determine operation"):
		return "no-operation"
	case strings.Contains(msg, "must be the only operation"):
		return "invalid-document"
	}
	return "other:" + msg
}

func respTerm(res map[string]interface{}, calls []T) T {
	data := A("none")
	if d, ok := res["data"]; ok && d != nil {
		data = jTerm(d)
	} else if ok {
		data = N("null")
	}
	if p, ok := res["panic"]; ok {
		data = N("panic", S(fmt.Sprint(p)))
	}
	var errs []T
	if ea, ok := res["errors"].([]interface{}); ok {
		for _, e := range ea {
			em, _ := e.(map[string]interface{})
			msg, _ := em["message"].(string)
			var segs []T
			if p, ok := em["path"].([]interface{}); ok {
				for _, x := range p {
					switch t := x.(type) {
					case string:
						if strings.HasPrefix(t, "fragment at ") {
							segs = append(segs, N("frag"))
						} else {
							segs = append(segs, N("key", S(t)))
						}
					case int:
						segs = append(segs, N("idx", I(int64(t))))
					}
				}
			}
			errs = append(errs, N("err", LS(segs), S(errClass(msg))))
		}
	}
	sortTerms(errs)
	cs := append([]T{}, calls...)
	sortTerms(cs)
	return N("resp", data, LS(errs), LS(cs))
}

func sortTerms(ts []T) {
	sort.SliceStable(ts, func(i, j int) bool { return ts[i].String() < ts[j].String() })
}
