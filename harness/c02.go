package main

import (
	"fmt"
	"reflect"
	"sort"
	"strings"

	"github.com/uhn/ggql/pkg/ggql"
)

// ---- C02: interface, root (any) and reflection resolvers give the same response -------------------------
//
// One neutral data graph (gGraph) is put behind several real roots:
//
//	iface     every node implements ggql.Resolver (lists as []interface{} or as ggql.ListResolver)
//	any       every node is a map[string]interface{}; one root AnyResolver answers for all of them
//	reflect   every node is a Go struct found by reflection: exported fields and methods, looked up
//	          case-insensitively (F0 … FiveID, M0(), MTwoURL(s string, b bool))
//	reflect-registered   the same with RegisterType for every object type
//	mixed-ir  a strategy per node: Resolver nodes among reflected structs (no AnyResolver)
//	mixed-ia  a strategy per node: Resolver nodes among maps (AnyResolver installed)
//	prec-ir   every node implements Resolver *and* carries poisoned exported fields: Resolver must win
//	prec-ar   every node is a struct with poisoned exported fields under an installed AnyResolver that
//	          answers from the graph: the AnyResolver must win over reflection
//
// and the same request is sent to each.  The observation is the interface root's response (compared
// with the walk model and the selection-semantics oracle) plus, per other root, whether its data,
// error paths/classes and resolver-invocation log (node, field, arguments received) are the same.

const c02Poison = "POISON"

// the field names every object type may have: value fields, a method without arguments, a method with a
// String and a Boolean argument that may also return an error
var c02FieldNames = []string{"f0", "f1", "f2", "f3", "fiveId", "m0", "mTwoUrl"}

func genSchemaC02(r *Rng) *gSchema {
	s := &gSchema{by: map[string]*gType{}}
	add := func(t *gType) { s.types = append(s.types, t); s.by[t.name] = t }
	for _, l := range gLeafNames {
		add(&gType{kind: "leaf", name: l})
	}
	nObj := 1 + r.Intn(4)
	var objs []string
	for i := 0; i < nObj; i++ {
		objs = append(objs, fmt.Sprintf("R%d", i))
	}
	mk := func() []*gField {
		var fs []*gField
		for _, fn := range c02FieldNames {
			if !r.Chance(70) {
				continue
			}
			f := &gField{name: fn}
			var base *gTRef
			if fn == "fiveId" || r.Chance(45) {
				base = named(Pick(r, gLeafNames))
			} else {
				base = named(Pick(r, objs))
			}
			t := base
			switch r.Intn(8) {
			case 0, 1:
				t = listOf(base)
			case 2:
				t = listOf(listOf(base))
			case 3:
				t = nonNull(base)
			case 4:
				t = nonNull(listOf(nonNull(base)))
			}
			f.t = t
			if fn == "mTwoUrl" {
				f.args = []gArg{{name: "s", kind: "str"}, {name: "b", kind: "bool"}}
			}
			fs = append(fs, f)
		}
		if len(fs) == 0 {
			fs = append(fs, &gField{name: "f0", t: named("Int")})
		}
		return fs
	}
	for _, o := range objs {
		add(&gType{kind: "object", name: o, fields: mk()})
	}
	add(&gType{kind: "object", name: "Query", fields: mk()})
	return s
}

type c02World struct {
	name  string
	g     *gGraph
	s     *gSchema
	objs  []interface{}
	calls []T
	strat []string // per node: iface | any | reflect
	lists map[*gDVal]interface{}
	lr    bool // hand out lists as ggql.ListResolver where the node is a Resolver
}

func (w *c02World) log(idx int, field string, args ...interface{}) {
	var as []string
	for _, a := range args {
		as = append(as, fmt.Sprintf("%T:%v", a, a))
	}
	w.calls = append(w.calls, N("call", I(int64(idx)), S(field), S(strings.Join(as, ","))))
}

func (w *c02World) fieldErr(idx int, field string) error {
	fr := w.g.nodes[idx].fields[field]
	if fr == nil || fr.errs == 0 {
		return nil
	}
	if fr.errs == 1 {
		return fmt.Errorf("boom")
	}
	var es ggql.Errors
	for i := 0; i < fr.errs; i++ {
		es = append(es, fmt.Errorf("boom %d", i))
	}
	return es
}

type c02List struct{ l []interface{} }

func (l *c02List) Len() int              { return len(l.l) }
func (l *c02List) Nth(i int) interface{} { return l.l[i] }

// value of the neutral graph as this world's Go value
func (w *c02World) goValue(v *gDVal, viaResolver bool) interface{} {
	switch v.kind {
	case "int":
		return int32(v.i)
	case "str":
		return v.s
	case "bool":
		return v.b
	case "ref":
		return w.objs[v.ref]
	case "list":
		if l, ok := w.lists[v]; ok {
			return l
		}
		l := make([]interface{}, len(v.list))
		for i, x := range v.list {
			l[i] = w.goValue(x, viaResolver)
		}
		var out interface{} = l
		if w.lr && viaResolver && len(v.list)%2 == 1 {
			out = &c02List{l: l}
		}
		w.lists[v] = out
		return out
	}
	return nil
}

func (w *c02World) value(idx int, field string, viaResolver bool) interface{} {
	fr := w.g.nodes[idx].fields[field]
	if fr == nil {
		return nil
	}
	return w.goValue(fr.val, viaResolver)
}

// --- interface strategy ---
type c02I struct {
	w   *c02World
	idx int
}

func (n *c02I) Resolve(f *ggql.Field, args map[string]interface{}) (interface{}, error) {
	if f.Name == "mTwoUrl" {
		n.w.log(n.idx, f.Name, args["s"], args["b"])
	} else {
		n.w.log(n.idx, f.Name)
	}
	return n.w.value(n.idx, f.Name, true), n.w.fieldErr(n.idx, f.Name)
}

// --- reflection strategy: one Go struct shape, one named type per GraphQL object type ---
type c02S struct {
	F0, F1, F2, F3 interface{}
	FiveID         interface{}
	w              *c02World
	idx            int
}

func (n *c02S) M0() interface{} {
	n.w.log(n.idx, "m0")
	return n.w.value(n.idx, "m0", false)
}
func (n *c02S) MTwoURL(s string, b bool) (interface{}, error) {
	n.w.log(n.idx, "mTwoUrl", s, b)
	return n.w.value(n.idx, "mTwoUrl", false), n.w.fieldErr(n.idx, "mTwoUrl")
}
func (n *c02S) index() int { return n.idx }

type R0 struct{ c02S }
type R1 struct{ c02S }
type R2 struct{ c02S }
type R3 struct{ c02S }
type RQuery struct{ c02S }

// a node that is both: Resolver (right answers) over poisoned exported fields
type c02P struct {
	c02S
}

func (n *c02P) Resolve(f *ggql.Field, args map[string]interface{}) (interface{}, error) {
	if f.Name == "mTwoUrl" {
		n.w.log(n.idx, f.Name, args["s"], args["b"])
	} else {
		n.w.log(n.idx, f.Name)
	}
	return n.w.value(n.idx, f.Name, true), n.w.fieldErr(n.idx, f.Name)
}

// --- any strategy ---
type c02Any struct{ w *c02World }

func (a c02Any) Resolve(obj interface{}, f *ggql.Field, args map[string]interface{}) (interface{}, error) {
	idx := -1
	switch o := obj.(type) {
	case map[string]interface{}:
		idx = o["__idx"].(int)
	case interface{ index() int }:
		idx = o.index()
	}
	if idx < 0 {
		return nil, nil
	}
	if f.Name == "mTwoUrl" {
		a.w.log(idx, f.Name, args["s"], args["b"])
	} else {
		a.w.log(idx, f.Name)
	}
	return a.w.value(idx, f.Name, false), a.w.fieldErr(idx, f.Name)
}
func (a c02Any) Len(list interface{}) int {
	if l, ok := list.([]interface{}); ok {
		return len(l)
	}
	return 0
}
func (a c02Any) Nth(list interface{}, i int) (interface{}, error) {
	if l, ok := list.([]interface{}); ok && i < len(l) {
		return l[i], nil
	}
	return nil, nil
}

type c02RootObj struct{ Query interface{} }

func (r *c02RootObj) Resolve(f *ggql.Field, args map[string]interface{}) (interface{}, error) {
	return r.Query, nil
}

type c02RootPlain struct{ Query interface{} }

func newStruct(goType string, base c02S) interface{} {
	switch goType {
	case "R0":
		return &R0{base}
	case "R1":
		return &R1{base}
	case "R2":
		return &R2{base}
	case "R3":
		return &R3{base}
	}
	return &RQuery{base}
}

// c02Build builds one root over the graph. strat(i) names the strategy of node i.
func c02Build(name string, s *gSchema, g *gGraph, strat func(i int) string, useAny, register, poison, lr bool) (*ggql.Root, *c02World, error) {
	w := &c02World{name: name, g: g, s: s, lists: map[*gDVal]interface{}{}, lr: lr}
	qi := 0
	for i, n := range g.nodes {
		st := strat(i)
		w.strat = append(w.strat, st)
		var o interface{}
		switch st {
		case "iface":
			if poison {
				o = &c02P{c02S{w: w, idx: i}}
			} else {
				o = &c02I{w: w, idx: i}
			}
		case "any":
			o = map[string]interface{}{"__idx": i}
		default:
			o = newStruct(n.goType, c02S{w: w, idx: i})
		}
		w.objs = append(w.objs, o)
		if n.goType == "Query" {
			qi = i
		}
	}
	// fill the exported fields of the structs (values of the graph, or poison when something else must win)
	for i, n := range g.nodes {
		var base *c02S
		switch o := w.objs[i].(type) {
		case *R0:
			base = &o.c02S
		case *R1:
			base = &o.c02S
		case *R2:
			base = &o.c02S
		case *R3:
			base = &o.c02S
		case *RQuery:
			base = &o.c02S
		case *c02P:
			base = &o.c02S
		}
		if base == nil {
			continue
		}
		set := func(field string) interface{} {
			if poison {
				return c02Poison
			}
			if fr := n.fields[field]; fr != nil {
				return w.goValue(fr.val, false)
			}
			return nil
		}
		base.F0, base.F1, base.F2, base.F3, base.FiveID = set("f0"), set("f1"), set("f2"), set("f3"), set("fiveId")
	}
	var root *ggql.Root
	if w.strat[qi] == "iface" {
		root = ggql.NewRoot(&c02RootObj{Query: w.objs[qi]})
	} else if useAny {
		top := map[string]interface{}{"__idx": -1, "query": w.objs[qi]}
		root = ggql.NewRoot(top)
	} else {
		root = ggql.NewRoot(&c02RootPlain{Query: w.objs[qi]})
	}
	if useAny {
		root.AnyResolver = c02AnyTop{c02Any{w}}
	}
	if err := root.ParseString(s.sdl()); err != nil {
		return nil, nil, err
	}
	if register {
		for _, t := range s.types {
			if t.kind == "object" {
				if err := root.RegisterType(newStruct(t.name, c02S{}), t.name); err != nil {
					return nil, nil, err
				}
			}
		}
	}
	return root, w, nil
}

// the top-level map {"query": …} of the any strategy is answered here, everything else by c02Any
type c02AnyTop struct{ c02Any }

func (a c02AnyTop) Resolve(obj interface{}, f *ggql.Field, args map[string]interface{}) (interface{}, error) {
	if m, ok := obj.(map[string]interface{}); ok {
		if idx, _ := m["__idx"].(int); idx == -1 {
			return m[f.Name], nil
		}
	}
	return a.c02Any.Resolve(obj, f, args)
}

// sortedCalls: the invocations every strategy makes — the two method-backed fields (reading an exported struct
// field is not an invocation under reflection)
func sortedCalls(cs []T) T {
	var out []T
	for _, c := range cs {
		if f := c.Args[1].Atom; f == S("m0").Atom || f == S("mTwoUrl").Atom {
			out = append(out, c)
		}
	}
	sort.Slice(out, func(i, j int) bool { return out[i].String() < out[j].String() })
	return LS(out)
}

// projection of a call log to what the walk model knows: (node, field)
func modelCalls(cs []T) []T {
	var out []T
	for _, c := range cs {
		out = append(out, N("call", c.Args[0], c.Args[1]))
	}
	return out
}

func c02Case(o *Out, r *Rng) {
	s := genSchemaC02(r)
	g := genGraph(r, s)
	// errors only where every strategy can return one: the method with a result and an error
	for _, n := range g.nodes {
		for _, fn := range n.order {
			fr := n.fields[fn]
			fr.errs = 0
			if fn == "mTwoUrl" && r.Chance(15) {
				fr.errs = 1 + r.Intn(2)
			}
			stripTyped(fr.val)
		}
	}
	d := genDoc(r, s, docOpts{collisions: false, abstract: false, maxDepth: 4, allArgs: true})
	opName := ""
	if len(d.ops) > 1 || d.ops[0].name != "" {
		opName = d.ops[0].name
	}
	mixed := make([]string, len(g.nodes))
	type cfg struct {
		name                         string
		strat                        func(int) string
		useAny, register, poison, lr bool
	}
	all := func(st string) func(int) string { return func(int) string { return st } }
	mix := func(a, b string) func(int) string {
		for i := range mixed {
			if r.Bool() {
				mixed[i] = a
			} else {
				mixed[i] = b
			}
		}
		m := append([]string{}, mixed...)
		return func(i int) string { return m[i] }
	}
	cfgs := []cfg{
		{"iface", all("iface"), false, false, false, false},
		{"iface-listresolver", all("iface"), false, false, false, true},
		{"any", all("any"), true, false, false, false},
		{"reflect", all("reflect"), false, false, false, false},
		{"reflect-registered", all("reflect"), false, true, false, false},
		{"mixed-ir", mix("iface", "reflect"), false, false, false, false},
		{"mixed-ia", mix("iface", "any"), true, false, false, true},
		{"prec-ir", all("iface"), false, false, true, false},
		{"prec-ar", all("reflect"), true, false, true, false},
	}
	var ref T
	var refCalls T
	var refModelCalls []T
	var sames []T
	meta := map[string]interface{}{"schema": s.sdl(), "doc": d.text(), "op": opName, "vars": d.vars}
	for i, c := range cfgs {
		root, w, err := c02Build(c.name, s, g, c.strat, c.useAny, c.register, c.poison, c.lr)
		if err != nil {
			panic(fmt.Sprintf("c02 %s: %v\n%s", c.name, err, s.sdl()))
		}
		vars := map[string]interface{}{}
		for k, v := range d.vars {
			vars[k] = v
		}
		res := safeResolve(root, d.text(), opName, vars)
		obs := respTerm(res, nil)
		calls := sortedCalls(w.calls)
		if i == 0 {
			ref, refCalls = obs, calls
			refModelCalls = modelCalls(w.calls)
			meta["response"] = fmt.Sprint(res)
			continue
		}
		same := obs.String() == ref.String() && calls.String() == refCalls.String()
		if same {
			sames = append(sames, N("same", A(c.name)))
		} else {
			sames = append(sames, N("differs", A(c.name), obs, calls))
			meta["response_"+c.name] = fmt.Sprint(res)
			if c.name == "mixed-ir" || c.name == "mixed-ia" {
				meta["strategies_"+c.name] = strings.Join(w.strat, ",")
			}
			o.Count("differs=" + c.name)
		}
	}
	// the reference observation in the walk model's form (calls as (node, field), sorted)
	sortTerms(refModelCalls)
	refObs := N("resp", ref.Args[0], ref.Args[1], LS(refModelCalls))
	o.Count(fmt.Sprintf("objects=%d", len(s.types)-4))
	o.Emit(Case{
		Term:       N("c02", N("walk", s.term(), g.term(), d.opsTerm(), S(opName), LS(d.vt), I(int64(queryIndex(g))))),
		Obs:        N("obs", refObs, LS(sames)),
		Meta:       meta,
		Nontrivial: true,
	})
}

func queryIndex(g *gGraph) int {
	for i, n := range g.nodes {
		if n.goType == "Query" {
			return i
		}
	}
	return 0
}

// stripTyped turns typed nils into plain nils (typed nil pointers are a reflection-only notion)
func stripTyped(v *gDVal) {
	if v.kind == "tnil" {
		v.kind = "nil"
	}
	for _, x := range v.list {
		stripTyped(x)
	}
}

func init() {
	props["C02"] = func(o *Out, rng *Rng, tier string) {
		n := 1500
		if tier == "thorough" {
			n = 50000
		}
		for i := 0; i < n; i++ {
			c02Case(o, rng.Fork())
		}
		c02ArgsStream(o, rng.Fork(), n/3)
		c02EmptyLists(o)
		c02Precedence(o)
	}
}

// ---- empty lists behind every list representation ------------------------------------------------------
//
// Fixed table, every run: the same empty list held as a []interface{}, behind the ListResolver interface, behind
// an AnyResolver's Len/Nth, as a typed Go slice and as a Go array found by reflection.  The response — compared as
// encoding/json writes it, which tells a nil slice (null) from an empty one ([]) — must be the same.

type c02EmptyList struct{}

func (c02EmptyList) Len() int              { return 0 }
func (c02EmptyList) Nth(i int) interface{} { return nil }

type c02ENode struct{ list interface{} }

func (n *c02ENode) Resolve(f *ggql.Field, args map[string]interface{}) (interface{}, error) {
	switch f.Name {
	case "query":
		return n, nil
	case "items", "names":
		return n.list, nil
	}
	return nil, nil
}

type c02EItem struct{ Name string }
type c02EQuery struct {
	Items interface{}
	Names interface{}
}
type c02ESchema struct{ Query *c02EQuery }

type c02EAny struct{}

type c02ECustom struct{ n int }

func (c02EAny) Resolve(obj interface{}, f *ggql.Field, args map[string]interface{}) (interface{}, error) {
	if m, ok := obj.(map[string]interface{}); ok {
		return m[f.Name], nil
	}
	return nil, nil
}
func (c02EAny) Len(list interface{}) int {
	if c, ok := list.(*c02ECustom); ok {
		return c.n
	}
	return 0
}
func (c02EAny) Nth(list interface{}, i int) (interface{}, error) { return nil, nil }

func c02EmptyLists(o *Out) {
	const sdl = "type Query { items: [Item] names: [String] }\ntype Item { name: String }"
	mk := map[string]func() *ggql.Root{
		"iface-slice":        func() *ggql.Root { return ggql.NewRoot(&c02ENode{list: []interface{}{}}) },
		"iface-listresolver": func() *ggql.Root { return ggql.NewRoot(&c02ENode{list: c02EmptyList{}}) },
		"any-slice": func() *ggql.Root {
			r := ggql.NewRoot(map[string]interface{}{"query": map[string]interface{}{"items": []interface{}{}, "names": []interface{}{}}})
			r.AnyResolver = c02EAny{}
			return r
		},
		"any-custom-list": func() *ggql.Root {
			r := ggql.NewRoot(map[string]interface{}{"query": map[string]interface{}{"items": &c02ECustom{}, "names": &c02ECustom{}}})
			r.AnyResolver = c02EAny{}
			return r
		},
		"reflect-typed-slice": func() *ggql.Root {
			return ggql.NewRoot(&c02ESchema{Query: &c02EQuery{Items: []*c02EItem{}, Names: []string{}}})
		},
		"reflect-array": func() *ggql.Root {
			return ggql.NewRoot(&c02ESchema{Query: &c02EQuery{Items: [0]*c02EItem{}, Names: [0]string{}}})
		},
		"reflect-interface-slice": func() *ggql.Root {
			return ggql.NewRoot(&c02ESchema{Query: &c02EQuery{Items: []interface{}{}, Names: []interface{}{}}})
		},
	}
	names := make([]string, 0, len(mk))
	for k := range mk {
		names = append(names, k)
	}
	sort.Strings(names)
	for _, doc := range []string{"{ items { name } }", "{ names }", "{ items { name } names }"} {
		var obs []T
		for _, k := range names {
			root := mk[k]()
			if err := root.ParseString(sdl); err != nil {
				panic(err)
			}
			obs = append(obs, N("s", S(k), S(canon(safeResolve(root, doc, "", nil)))))
		}
		o.Count("empty-list documents")
		o.Emit(Case{Term: N("c02e", S(doc)), Obs: LS(obs), Meta: map[string]interface{}{"doc": doc}, Nontrivial: true})
	}
}

// ---- precedence: with a root resolver set, lists are walked through its Len / Nth ----------------------
//
// "The interface resolver takes precedence over the root resolver, which takes precedence over reflection."  A root
// resolver whose Len / Nth are not plain indexing (here: the members come back last first, and the last one is
// hidden) shows which of the two walked a list: whatever Go type holds the members, the response is the one
// Len / Nth dictate.  Fixed table, every run.

type c02PThing struct{ Name string }

type c02PAny struct{}

func (c02PAny) Resolve(obj interface{}, f *ggql.Field, args map[string]interface{}) (interface{}, error) {
	switch t := obj.(type) {
	case map[string]interface{}:
		return t[f.Name], nil
	case *c02PThing:
		if f.Name == "name" {
			return t.Name, nil
		}
	}
	return nil, nil
}

func c02PLen(list interface{}) int {
	rv := reflect.ValueOf(list)
	if rv.Kind() == reflect.Slice || rv.Kind() == reflect.Array {
		return rv.Len()
	}
	return 0
}

// all but the last member, last first
func (c02PAny) Len(list interface{}) int {
	if n := c02PLen(list); 0 < n {
		return n - 1
	}
	return 0
}

func (c02PAny) Nth(list interface{}, i int) (interface{}, error) {
	rv := reflect.ValueOf(list)
	n := c02PLen(list) - 1
	if i < 0 || n <= i {
		return nil, fmt.Errorf("no member %d", i)
	}
	return rv.Index(n - 1 - i).Interface(), nil
}

func c02Precedence(o *Out) {
	const sdl = "type Query { items: [Item] }\ntype Item { name: String }"
	m := func(n string) map[string]interface{} { return map[string]interface{}{"name": n} }
	lists := []struct {
		name string
		list interface{}
	}{
		// (a []interface{} — and the seven built-in leaf slices — are walked directly by design, before the root
		// resolver is asked: they are the library's own list representation; not in this table)
		{"[]map[string]interface{}", []map[string]interface{}{m("a"), m("b"), m("c")}},
		{"[]*struct", []*c02PThing{{"a"}, {"b"}, {"c"}}},
		{"[3]*struct", [3]*c02PThing{{"a"}, {"b"}, {"c"}}},
		{"named slice type", c02PNamed{m("a"), m("b"), m("c")}},
	}
	const want = `{"data":{"items":[{"name":"b"},{"name":"a"}]}}`
	for _, l := range lists {
		root := ggql.NewRoot(map[string]interface{}{"query": map[string]interface{}{"items": l.list}})
		root.AnyResolver = c02PAny{}
		if err := root.ParseString(sdl); err != nil {
			panic(err)
		}
		got := canon(safeResolve(root, "{ items { name } }", "", nil))
		o.Count("root-resolver list precedence cases")
		o.Emit(Case{Term: N("c02p", S(l.name)), Obs: N("obs", B(got == want)),
			Meta: map[string]interface{}{"list": l.name, "response": got, "expected": want}, Nontrivial: true})
	}
}

type c02PNamed []map[string]interface{}
