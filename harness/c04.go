package main

import (
	"fmt"
	"math"
	"sort"
	"strconv"
	"strings"

	"github.com/uhn/ggql/pkg/ggql"
)

// ---- C04: resolvers only receive conforming arguments ---------------------------------------------

type c04Type struct {
	gql  string
	term T
	kind string // scalar | enum | input | list | nn
	base *c04Type
	scal string
}

func c04Scalar(gql, wire string) *c04Type {
	return &c04Type{gql: gql, term: N("scalar", A(wire)), kind: "scalar", scal: wire}
}
func c04List(b *c04Type) *c04Type {
	return &c04Type{gql: "[" + b.gql + "]", term: N("list", b.term), kind: "list", base: b}
}
func c04NN(b *c04Type) *c04Type {
	return &c04Type{gql: b.gql + "!", term: N("nn", b.term), kind: "nn", base: b}
}

var c04Enum = &c04Type{gql: "Color", term: N("enum", S("RED"), S("GREEN"), S("BLUE")), kind: "enum"}
var c04In = &c04Type{gql: "In", term: N("input", S("In")), kind: "input"}

type c04Field struct {
	name string
	t    *c04Type
	dflt string // literal text, "" = none
	dt   T
}

var c04InFields []c04Field
var c04ArgTypes []*c04Type

func init() {
	i, s, f := c04Scalar("Int", "int"), c04Scalar("String", "string"), c04Scalar("Float", "float")
	c04InFields = []c04Field{
		{"a", i, "", A("none")},
		{"b", s, `"dflt"`, N("go", N("str", S("dflt")))},
		{"c", c04NN(f), "", A("none")},
		{"d", c04List(i), "", A("none")},
		{"e", c04In, "", A("none")},
		{"f", c04Enum, "", A("none")},
		{"g", i, "5", N("go", N("int", A("i64"), I(5)))},
		{"h", c04NN(s), `"hd"`, N("go", N("str", S("hd")))},
	}
	for _, sc := range []struct{ g, w string }{{"Int", "int"}, {"Int64", "int64"}, {"Float", "float"}, {"Float64", "float64"},
		{"String", "string"}, {"ID", "id"}, {"Boolean", "boolean"}} {
		b := c04Scalar(sc.g, sc.w)
		c04ArgTypes = append(c04ArgTypes, b, c04NN(b), c04List(b), c04NN(c04List(c04NN(b))), c04List(c04List(b)))
	}
	c04ArgTypes = append(c04ArgTypes, c04Enum, c04NN(c04Enum), c04List(c04Enum), c04In, c04NN(c04In), c04List(c04In))
}

func c04Schema() string {
	var b strings.Builder
	b.WriteString("enum Color { RED GREEN BLUE }\ninput In {")
	for _, f := range c04InFields {
		b.WriteString(" " + f.name + ": " + f.t.gql)
		if f.dflt != "" {
			b.WriteString(" = " + f.dflt)
		}
	}
	b.WriteString(" }\ntype Query {\n")
	for i, t := range c04ArgTypes {
		fmt.Fprintf(&b, "  q%d(x: %s): String\n", i, t.gql)
	}
	b.WriteString("  two(x: Int!, y: String): String\n}\n")
	return b.String()
}

// the defaults of `In`'s fields as the loaded root holds them (the loader may have coerced them: Int 5 is then an
// int32, not the int64 the scanner produced); read through the public API after loading
var c04Defaults = map[string]T{}

func c04LoadDefaults(root *ggql.Root) {
	if in, _ := root.GetType("In").(*ggql.Input); in != nil {
		for _, f := range in.Fields() {
			if f.Default != nil {
				c04Defaults[f.Name()] = govToVal(f.Default, hintSet{})
			}
		}
	}
}

func c04InputsTerm() T {
	fs := []T{S("In")}
	for _, f := range c04InFields {
		dt := f.dt
		if d, ok := c04Defaults[f.name]; ok {
			dt = d
		}
		fs = append(fs, N("f", S(f.name), f.t.term, dt))
	}
	return L(N("input", fs...))
}

// a generated value: literal text, wire term, and (for variable values) the Go value
type c04Val struct {
	lit  string
	term T
	gov  interface{}
	vars []string // variable names referenced inside
}

type c04Gen struct {
	rng   *Rng
	hints hintSet
	vdefs []string          // "$v0: T = dflt"
	vdt   []T               // (vd name T dflt)
	vars  map[string]interface{}
	sup   []T               // (kv name V)
	nvar  int
	allowVar bool
	scalarDefaultsWhenNested bool
}

func govToVal(v interface{}, h hintSet) T {
	switch t := v.(type) {
	case []interface{}:
		ts := make([]T, len(t))
		for i, x := range t {
			ts[i] = govToVal(x, h)
		}
		return N("list", ts...)
	case map[string]interface{}:
		keys := make([]string, 0, len(t))
		for k := range t {
			keys = append(keys, k)
		}
		sort.Strings(keys)
		var ts []T
		for _, k := range keys {
			ts = append(ts, N("kv", S(k), govToVal(t[k], h)))
		}
		return N("obj", ts...)
	}
	h.add(v)
	return N("go", valTerm(v))
}

func fmtFloatLit(f float64) string {
	s := strconv.FormatFloat(f, 'g', -1, 64)
	if !strings.ContainsAny(s, ".eE") {
		s += ".0"
	}
	return s
}

// scalarValue: a (mostly valid) leaf for scalar s as literal + Go value
func (g *c04Gen) scalarValue(s string, fault bool) c04Val {
	r := g.rng
	mkInt := func(n int64) c04Val {
		return c04Val{lit: strconv.FormatInt(n, 10), term: N("go", N("int", A("i64"), I(n))), gov: n}
	}
	mkFloat := func(f float64) c04Val {
		return c04Val{lit: fmtFloatLit(f), term: N("go", N("f64", f64bits(f))), gov: f}
	}
	mkStr := func(x string) c04Val {
		g.hints.add(x)
		return c04Val{lit: strconv.Quote(x), term: N("go", N("str", S(x))), gov: x}
	}
	mkBool := func(b bool) c04Val {
		return c04Val{lit: fmt.Sprint(b), term: N("go", N("bool", B(b))), gov: b}
	}
	if fault {
		switch r.Intn(6) {
		case 0:
			return mkStr(Pick(r, []string{"abc", "12", "1.5", "true", "RED"}))
		case 1:
			return mkBool(r.Bool())
		case 2:
			// fractional, and integral but outside 32 bits (what encoding/json hands over for a large JSON number)
			return mkFloat(Pick(r, []float64{1.5, 3.7, 1e300, 2147483648.5, 2147483648, -2147483649, 4294967297, 4294967296, 9007199254740992, 1e18}))
		case 3:
			return mkInt(Pick(r, []int64{4294967297, 2147483648, -2147483649, 1 << 40, math.MaxInt64}))
		case 4:
			return c04Val{lit: "RED", term: N("go", N("sym", S("RED"))), gov: ggql.Symbol("RED")}
		default:
			return c04Val{lit: "null", term: N("go", N("nil")), gov: nil}
		}
	}
	switch s {
	case "int":
		return mkInt(Pick(r, []int64{0, 1, -1, 42, 2147483647, -2147483648}))
	case "int64":
		return mkInt(Pick(r, []int64{0, 7, 1 << 40, math.MaxInt64, math.MinInt64 + 1}))
	case "float":
		if r.Bool() {
			return mkInt(Pick(r, []int64{0, 3, -8, 16777217}))
		}
		return mkFloat(Pick(r, []float64{0.5, -2.25, 1e10, 0.1, 3.4e38, 3.5e38, 1e39, -1e300}))
	case "float64":
		if r.Bool() {
			return mkInt(Pick(r, []int64{0, 3, 1<<53 + 1}))
		}
		return mkFloat(Pick(r, []float64{0.5, -2.25, 1e300, 0.1}))
	case "string":
		return mkStr(Pick(r, []string{"", "s", "héllo", "a\"b", "12"}))
	case "id":
		if r.Bool() {
			return mkInt(Pick(r, []int64{0, 12, -3, 1 << 40}))
		}
		return mkStr(Pick(r, []string{"id1", "007"}))
	case "boolean":
		return mkBool(r.Bool())
	}
	return mkInt(1)
}

// goKindVariant re-types a JSON-ish Go value into another Go kind a caller might pass in the vars map
func (g *c04Gen) goKindVariant(v interface{}) interface{} {
	r := g.rng
	switch t := v.(type) {
	case int64:
		switch r.Intn(8) {
		case 0:
			return float64(t) // what encoding/json produces
		case 1:
			return int(t)
		case 2:
			if t >= math.MinInt32 && t <= math.MaxInt32 {
				return int32(t)
			}
		case 3:
			if t >= 0 {
				return uint64(t)
			}
		case 4:
			if t >= 0 && t <= 65535 {
				return uint16(t)
			}
		}
		return t
	case float64:
		if r.Chance(20) {
			return float32(t)
		}
	}
	return v
}

func (g *c04Gen) value(t *c04Type, depth int) c04Val {
	r := g.rng
	// a variable reference at this position
	if g.allowVar && depth > 0 && r.Chance(15) {
		return g.variable(t, depth)
	}
	if r.Chance(6) {
		return c04Val{lit: "null", term: N("go", N("nil")), gov: nil}
	}
	// an object literal where the declared type is not an input object (a scalar, an enum, a list — also a list of
	// input objects)
	if t.kind != "input" && t.kind != "nn" && r.Chance(4) {
		return c04Val{lit: "{a: 1}", term: N("obj", N("kv", S("a"), N("go", N("int", A("i64"), I(1))))), gov: map[string]interface{}{"a": int64(1)}}
	}
	switch t.kind {
	case "scalar":
		return g.scalarValue(t.scal, r.Chance(18))
	case "enum":
		switch c := r.Intn(10); {
		case c < 7:
			n := Pick(r, []string{"RED", "GREEN", "BLUE"})
			return c04Val{lit: n, term: N("go", N("sym", S(n))), gov: ggql.Symbol(n)}
		case c < 8:
			return c04Val{lit: "PINK", term: N("go", N("sym", S("PINK"))), gov: ggql.Symbol("PINK")}
		default:
			return g.scalarValue("string", false)
		}
	case "nn":
		return g.value(t.base, depth)
	case "list":
		if r.Chance(7) {
			if r.Bool() {
				// a symbol where a list is declared (a list of enums, of lists of enums, or of anything else)
				n := Pick(r, []string{"RED", "GREEN", "BLUE"})
				return c04Val{lit: n, term: N("go", N("sym", S(n))), gov: ggql.Symbol(n)}
			}
			return g.scalarValue("int", false) // a non-list where a list is declared
		}
		n := r.Intn(4)
		var lits []string
		var ts []T
		govs := []interface{}{}
		var vs []string
		for i := 0; i < n; i++ {
			e := g.value(t.base, depth+1)
			lits = append(lits, e.lit)
			ts = append(ts, e.term)
			govs = append(govs, e.gov)
			vs = append(vs, e.vars...)
		}
		return c04Val{lit: "[" + strings.Join(lits, ", ") + "]", term: N("list", ts...), gov: govs, vars: vs}
	case "input":
		if depth > 3 {
			return c04Val{lit: "null", term: N("go", N("nil")), gov: nil}
		}
		var lits []string
		var ts []T
		gov := map[string]interface{}{}
		var vs []string
		for _, f := range c04InFields {
			include := r.Chance(55)
			if f.name == "c" {
				include = r.Chance(85)
			}
			if f.name == "e" {
				include = r.Chance(20)
			}
			if !include {
				continue
			}
			e := g.value(f.t, depth+1)
			lits = append(lits, f.name+": "+e.lit)
			ts = append(ts, N("kv", S(f.name), e.term))
			gov[f.name] = e.gov
			vs = append(vs, e.vars...)
		}
		if r.Chance(6) {
			lits = append(lits, "zz: 1")
			ts = append(ts, N("kv", S("zz"), N("go", N("int", A("i64"), I(1)))))
			gov["zz"] = int64(1)
		}
		return c04Val{lit: "{" + strings.Join(lits, ", ") + "}", term: N("obj", ts...), gov: gov, vars: vs}
	}
	return c04Val{lit: "null", term: N("go", N("nil")), gov: nil}
}

// variable: declares $vN of type t and supplies / defaults / omits its value
func (g *c04Gen) variable(t *c04Type, depth int) c04Val {
	r := g.rng
	name := fmt.Sprintf("v%d", g.nvar)
	g.nvar++
	saved := g.allowVar
	g.allowVar = false
	defer func() { g.allowVar = saved }()
	dt := A("none")
	def := "$" + name + ": " + t.gql
	nestedComposite := g.scalarDefaultsWhenNested && depth > 1 && (t.kind == "list" || t.kind == "input" || (t.kind == "nn" && t.base.kind != "scalar" && t.base.kind != "enum"))
	if r.Chance(35) && !nestedComposite {
		d := g.value(t, depth+1)
		def += " = " + d.lit
		dt = d.term
	}
	g.vdefs = append(g.vdefs, def)
	g.vdt = append(g.vdt, N("vd", S(name), t.term, dt))
	switch c := r.Intn(10); {
	case c < 6: // supplied
		v := g.value(t, depth+1)
		gov := g.retype(v.gov)
		g.vars[name] = gov
		g.sup = append(g.sup, N("kv", S(name), govToVal(gov, g.hints)))
	case c < 7: // explicit null
		g.vars[name] = nil
		g.sup = append(g.sup, N("kv", S(name), N("go", N("nil"))))
	}
	return c04Val{lit: "$" + name, term: N("var", S(name)), vars: []string{name}}
}

func (g *c04Gen) retype(v interface{}) interface{} {
	switch t := v.(type) {
	case []interface{}:
		out := make([]interface{}, len(t))
		for i, x := range t {
			out[i] = g.retype(x)
		}
		return out
	case map[string]interface{}:
		out := map[string]interface{}{}
		keys := make([]string, 0, len(t))
		for k := range t {
			keys = append(keys, k)
		}
		sort.Strings(keys) // the PRNG is consumed in a fixed order: runs replay exactly
		for _, k := range keys {
			out[k] = g.retype(t[k])
		}
		return out
	}
	return g.goKindVariant(v)
}

type c04Rec struct {
	called bool
	args   map[string]interface{}
}

type c04Root struct{ rec *c04Rec }

func (r *c04Root) Resolve(f *ggql.Field, args map[string]interface{}) (interface{}, error) {
	if f.Name == "query" {
		return r, nil
	}
	r.rec.called = true
	r.rec.args = args
	return "ok", nil
}

func c04Case(o *Out, root *ggql.Root, rec *c04Rec, rng *Rng) {
	g := &c04Gen{rng: rng, hints: hintSet{}, vars: map[string]interface{}{}, allowVar: true}
	var field string
	var decl, given []T
	var argText []string
	if rng.Chance(12) {
		field = "two"
		decl = []T{N("a", S("x"), N("nn", N("scalar", A("int")))), N("a", S("y"), N("scalar", A("string")))}
		if rng.Chance(70) {
			v := g.value(c04NN(c04Scalar("Int", "int")), 1)
			argText = append(argText, "x: "+v.lit)
			given = append(given, N("kv", S("x"), v.term))
		}
		if rng.Chance(60) {
			v := g.value(c04Scalar("String", "string"), 1)
			argText = append(argText, "y: "+v.lit)
			given = append(given, N("kv", S("y"), v.term))
		}
	} else {
		i := rng.Intn(len(c04ArgTypes))
		t := c04ArgTypes[i]
		field = fmt.Sprintf("q%d", i)
		decl = []T{N("a", S("x"), t.term)}
		if rng.Chance(92) {
			v := g.value(t, 1)
			argText = append(argText, "x: "+v.lit)
			given = append(given, N("kv", S("x"), v.term))
		}
	}
	doc := "query Q"
	if len(g.vdefs) > 0 {
		doc += "(" + strings.Join(g.vdefs, ", ") + ")"
	}
	doc += " { " + field
	if len(argText) > 0 {
		doc += "(" + strings.Join(argText, ", ") + ")"
	}
	doc += " }"
	rec.called, rec.args = false, nil
	res := safeResolve(root, doc, "", g.vars)
	nerr := 0
	if ea, ok := res["errors"].([]interface{}); ok {
		nerr = len(ea)
	}
	_, hasData := res["data"]
	reqFailed := !hasData || res["data"] == nil
	if _, p := res["panic"]; p {
		nerr = -1
	}
	var kvs []T
	if rec.called {
		keys := make([]string, 0, len(rec.args))
		for k := range rec.args {
			keys = append(keys, k)
		}
		sort.Strings(keys)
		for _, k := range keys {
			kvs = append(kvs, N("kv", S(k), govToVal(rec.args[k], hintSet{})))
		}
	}
	if reqFailed && !rec.called {
		nerr = 1 // whole-request refusal: one error entry is what the model reports
	} else {
		reqFailed = false
	}
	o.Count("field=" + map[bool]string{true: "two", false: "single"}[field == "two"])
	o.Count(fmt.Sprintf("vars=%d", len(g.vdefs)))
	if rec.called {
		o.Count("resolver-called")
	} else {
		o.Count("resolver-not-called")
	}
	o.Emit(Case{
		Term: N("c04", c04InputsTerm(), LS(g.vdt), LS(g.sup), LS(decl), LS(given), g.hints.term()),
		Obs:  N("obs", B(reqFailed), B(rec.called), N("args", kvs...), I(int64(nerr))),
		Meta: map[string]interface{}{"doc": doc, "vars": fmt.Sprintf("%#v", g.vars), "received": fmt.Sprintf("%#v", rec.args), "response": fmt.Sprint(res)},
		Nontrivial: len(given) > 0,
	})
}

func init() {
	props["C04"] = func(o *Out, rng *Rng, tier string) {
		rec := &c04Rec{}
		root := ggql.NewRoot(&c04Root{rec: rec})
		if err := root.ParseString(c04Schema()); err != nil {
			panic(err)
		}
		c04LoadDefaults(root)
		n := 6000
		if tier == "thorough" {
			n = 300000
		}
		for i := 0; i < n; i++ {
			c04Case(o, root, rec, rng.Fork())
		}
		c04Structs(o)
	}
}

// ---- input objects with a registered Go struct: undeclared members --------------------------------------
//
// Fixed table, every run.  `Input.CoerceIn` takes a different path when a Go struct is registered for the input
// type (the value is built by reflection); an undeclared member must be refused there as it is for the map form,
// wherever the value comes from: a literal, a variable, a variable inside a literal, a member of a list.

type c04S struct {
	X int32
	Y string
	V int32
	W int32
	N int8
	U uint8
	F float32
	Ns []int16
}

type c04SNode struct {
	called bool
	got    []interface{}
}

func (n *c04SNode) Resolve(f *ggql.Field, args map[string]interface{}) (interface{}, error) {
	switch f.Name {
	case "query":
		return n, nil
	case "s", "l":
		n.called = true
		for _, v := range args {
			n.got = append(n.got, v)
		}
		return 1, nil
	}
	return nil, nil
}

var c04STable = []struct {
	doc     string
	vars    map[string]interface{}
	unknown string // the undeclared member the request carries, "" when there is none
}{
	{`{ s(in: {x: 1}) }`, nil, ""},
	{`{ s(in: {}) }`, nil, ""},
	{`{ s(in: {x: 1, y: "a"}) }`, nil, ""},
	{`{ s(in: {x: 1, z: 3}) }`, nil, "z"},
	{`{ s(in: {zz: null}) }`, nil, "zz"},
	{`query($v: SIn){ s(in: $v) }`, map[string]interface{}{"v": map[string]interface{}{"x": 1, "z": 3}}, "z"},
	{`query($v: SIn){ s(in: $v) }`, map[string]interface{}{"v": map[string]interface{}{"x": 1}}, ""},
	{`query($z: Int){ s(in: {x: 1, z: $z}) }`, map[string]interface{}{"z": 3}, "z"},
	{`{ l(ins: [{x: 1}, {z: 2}]) }`, nil, "z"},
	{`{ l(ins: [{x: 1}, {y: "b"}]) }`, nil, ""},
	// an explicit null for a field that has a default: not replaced by the default — refused where the field is non-null
	{`{ s(in: {w: null}) }`, nil, "!w"},
	{`query($v: SIn){ s(in: $v) }`, map[string]interface{}{"v": map[string]interface{}{"w": nil}}, "!w"},
	{`{ s(in: {v: null}) }`, nil, ""},
	// members of the registered struct that are narrower than the declared type: a value that does not fit is refused,
	// not truncated (n: int8, u: uint8, f: float32, ns: []int16)
	{`{ s(in: {n: 100}) }`, nil, ""},
	{`{ s(in: {n: 300}) }`, nil, "!n"},
	{`{ s(in: {n: -129}) }`, nil, "!n"},
	{`{ s(in: {u: 255}) }`, nil, ""},
	{`{ s(in: {u: 256}) }`, nil, "!u"},
	{`{ s(in: {f: 1.5}) }`, nil, ""},
	{`{ s(in: {f: 1e300}) }`, nil, "!f"},
	{`{ s(in: {ns: [1, 70000]}) }`, nil, "!ns"},
	{`query($v: SIn){ s(in: $v) }`, map[string]interface{}{"v": map[string]interface{}{"n": 300}}, "!n"},
}

func c04Structs(o *Out) {
	for _, registered := range []bool{true, false} {
		for _, e := range c04STable {
			node := &c04SNode{}
			root := ggql.NewRoot(node)
			if err := root.ParseString("input SIn { x: Int y: String v: Int = 3 w: Int! = 7 n: Int u: Int f: Float64 ns: [Int] }\ntype Query { s(in: SIn): Int l(ins: [SIn]): Int }"); err != nil {
				panic(err)
			}
			if registered {
				if err := root.RegisterType(&c04S{}, "SIn"); err != nil {
					panic(err)
				}
			}
			res := safeResolve(root, e.doc, "", e.vars)
			named := e.unknown != "" && strings.Contains(canon(res["errors"]), e.unknown+" is not a field")
			if strings.HasPrefix(e.unknown, "!") {
				ec := canon(res["errors"])
				named = strings.Contains(ec, e.unknown[1:]+" is required") || strings.Contains(ec, `"`+e.unknown[1:]+`"`) || strings.Contains(ec, " at "+e.unknown[1:])
				if !registered && (e.unknown == "!n" || e.unknown == "!u" || e.unknown == "!f" || e.unknown == "!ns") {
					continue // without a Go struct the value stays in a map: nothing is narrowed
				}
			}
			o.Count("input-with-registered-struct cases")
			o.Emit(Case{
				Term: N("c04s", S(e.doc), B(registered), B(e.unknown != "")),
				Obs:  N("obs", B(node.called), B(named)),
				Meta: map[string]interface{}{"doc": e.doc, "registered_go_struct": registered, "response": fmt.Sprintf("%v", res), "received": fmt.Sprintf("%#v", node.got)},
				Nontrivial: true,
			})
		}
	}
}
