package main

import (
	"fmt"
	"math/rand"
	"runtime"
	"strings"
	"sync"
	"time"

	"github.com/uhn/ggql/pkg/ggql"
)

// ---- C12: concurrent requests on one cold root ---------------------------------------------------
//
// Every iteration builds a fresh root (nothing lazily registered yet), fires N goroutines with a mix
// of requests at it, and compares each response with the response the same request gets when run
// alone on its own fresh root.  The verif yield hooks at the lazy-registration sites widen the
// first-use windows (Gosched / short sleeps).  Built with -race the same code is the race stress.

const c12Schema = `
type Query {
  artist(name: String!): Artist
  artists: [Artist]
  things: [Thing]
  first: Artist
  title: String
  top: Named
  ghost: String
  pair(a: Int!, b: Int!, c: Int!, d: Int!): Int
  box(i: Box): Int
}
input Box { w: Int! h: Int! d: Int! k: Int! }
interface Named { name: String }
type Artist implements Named { name: String songs: [Song] rating: Int origin: String }
type Song implements Named { name: String duration: Int }
union Thing = Artist | Song
`

type Song struct {
	Name     string
	Duration int
}

type Artist struct {
	Name   string
	Songs  []*Song
	Rating int
	orig   string
}

// Origin is method-backed (exercises the method arm of regField).
func (a *Artist) Origin() string { return a.orig }

type C12Query struct {
	Artists []*Artist
	Title   string
}

func (q *C12Query) Artist(name string) *Artist {
	for _, a := range q.Artists {
		if a.Name == name {
			return a
		}
	}
	return nil
}
func (q *C12Query) Top() interface{} { return q.Artists[1] }
func (q *C12Query) First() *Artist   { return q.Artists[0] }
func (q *C12Query) Things() []interface{} {
	return []interface{}{q.Artists[0], q.Artists[0].Songs[0], q.Artists[1]}
}

type C12Schema struct {
	Query *C12Query
}

func c12Root() *ggql.Root {
	a1 := &Artist{Name: "a1", Rating: 3, orig: "x", Songs: []*Song{{"s1", 10}, {"s2", 20}}}
	a2 := &Artist{Name: "a2", Rating: 5, orig: "y", Songs: []*Song{{"s3", 30}}}
	root := ggql.NewRoot(&C12Schema{Query: &C12Query{Artists: []*Artist{a1, a2}, Title: "t"}})
	if err := root.ParseString(c12Schema); err != nil {
		panic(err)
	}
	return root
}

type c12Req struct {
	doc  string
	vars map[string]interface{}
	tag  string
}

var c12Reqs = []c12Req{
	{`{ artists { name rating songs { name duration } } }`, nil, "fields"},
	{`{ artist(name: "a2") { name origin } }`, nil, "method"},
	{`query($n: String!){ artist(name: $n) { name songs { duration } } }`, map[string]interface{}{"n": "a1"}, "vars"},
	{`{ first { name origin rating } title }`, nil, "method2"},
	{`{ things { __typename ... on Artist { name rating } ... on Song { name duration } } }`, nil, "union"},
	{`{ artists { ...F } } fragment F on Artist { name origin }`, nil, "fragment"},
	{`{ __schema { types { name kind } queryType { name } } }`, nil, "introspection"},
	{`{ __type(name: "Artist") { name fields { name type { name kind } } interfaces { name } } }`, nil, "introspection2"},
	{`{ artists { songs { name } } title }`, nil, "fields2"},
	{`{ artist(name: "zz") { name } }`, nil, "null"},
	{`{ top { name } }`, nil, "iface"},
	{`{ ghost }`, nil, "unbacked-field"},
	{`{ title ghost }`, nil, "unbacked-field2"},
	{`{ pair }`, nil, "four-required-missing"},
	{`{ box(i: {}) }`, nil, "four-required-input-fields-missing"},
}

// requests for the interface-strategy root (argument formation goes through formArgs there)
var c12IfaceReqs = []c12Req{
	{`{ artists { name rating songs { name duration } } }`, nil, "i.fields"},
	{`{ artist(name: "a2") { name origin } }`, nil, "i.arg"},
	{`{ artist { name } }`, nil, "i.required-missing"},
	{`query($n: String!){ artist(name: $n) { name } }`, map[string]interface{}{"n": "a1"}, "i.vars"},
	{`query($n: String){ artist(name: $n) { name } }`, nil, "i.required-null-var"},
	{`{ artist(name: null) { name } }`, nil, "i.required-null"},
	{`{ first { name origin rating } title }`, nil, "i.method"},
	{`{ artists { ...F } } fragment F on Artist { name origin }`, nil, "i.fragment"},
	{`{ artist(name: "a1", zz: 1) { name } }`, nil, "i.unknown-arg"},
	{`{ ghost title }`, nil, "i.unbacked-field"},
	{`{ pair }`, nil, "i.four-required-missing"},
	{`{ pair(a: 1) title }`, nil, "i.three-required-missing"},
	{`{ box(i: {}) }`, nil, "i.four-required-input-fields-missing"},
	{`{ box(i: {w: 1}) }`, nil, "i.three-required-input-fields-missing"},
}

type c12INode struct {
	q *C12Query
	a *Artist
	s *Song
}

func (n *c12INode) Resolve(f *ggql.Field, args map[string]interface{}) (interface{}, error) {
	switch {
	case n.a != nil:
		switch f.Name {
		case "name":
			return n.a.Name, nil
		case "rating":
			return n.a.Rating, nil
		case "origin":
			return n.a.orig, nil
		case "songs":
			var l []interface{}
			for _, s := range n.a.Songs {
				l = append(l, &c12INode{s: s})
			}
			return l, nil
		}
	case n.s != nil:
		switch f.Name {
		case "name":
			return n.s.Name, nil
		case "duration":
			return n.s.Duration, nil
		}
	default:
		switch f.Name {
		case "query":
			return n, nil
		case "artist":
			name, _ := args["name"].(string)
			if a := n.q.Artist(name); a != nil {
				return &c12INode{a: a}, nil
			}
			return nil, nil
		case "artists":
			var l []interface{}
			for _, a := range n.q.Artists {
				l = append(l, &c12INode{a: a})
			}
			return l, nil
		case "first":
			return &c12INode{a: n.q.Artists[0]}, nil
		case "title":
			return n.q.Title, nil
		}
	}
	return nil, nil
}

func c12IfaceRoot() *ggql.Root {
	a1 := &Artist{Name: "a1", Rating: 3, orig: "x", Songs: []*Song{{"s1", 10}, {"s2", 20}}}
	a2 := &Artist{Name: "a2", Rating: 5, orig: "y", Songs: []*Song{{"s3", 30}}}
	root := ggql.NewRoot(&c12INode{q: &C12Query{Artists: []*Artist{a1, a2}, Title: "t"}})
	if err := root.ParseString(c12Schema); err != nil {
		panic(err)
	}
	return root
}

func c12Iter(rng *Rng, n int) (mismatch, panics, ifaceMismatch int, detail string, tags []string) {
	mk, pool := c12Root, c12Reqs
	if rng.Chance(30) {
		mk, pool = c12IfaceRoot, c12IfaceReqs
	} else if rng.Chance(35) {
		mk, pool = c12WideRoot, c12WideReqs
	}
	root := mk()
	reqs := make([]c12Req, n)
	for i := range reqs {
		reqs[i] = Pick(rng, pool)
		tags = append(tags, reqs[i].tag)
	}
	// solo baselines: each on its own cold root
	want := make([]string, n)
	for i, r := range reqs {
		want[i] = canon(safeResolve(mk(), r.doc, "", r.vars))
	}
	got := make([]string, n)
	var wg sync.WaitGroup
	start := make(chan struct{})
	for i := range reqs {
		wg.Add(1)
		go func(i int) {
			defer wg.Done()
			<-start
			got[i] = canon(safeResolve(root, reqs[i].doc, "", reqs[i].vars))
		}(i)
	}
	close(start)
	// a request that never returns (a mutex left locked, a lock-order cycle) must not wedge the harness
	finished := make(chan struct{})
	go func() { wg.Wait(); close(finished) }()
	select {
	case <-finished:
	case <-time.After(8 * time.Second):
		for i := range got {
			if got[i] == "" {
				got[i] = `{"deadlock":"request did not return within 8 s"}`
			}
		}
	}
	for i := range reqs {
		if got[i] != want[i] {
			if reqs[i].tag == "iface" {
				ifaceMismatch++
			} else {
				mismatch++
			}
			if detail == "" || (strings.Contains(got[i], `"deadlock"`) && !strings.Contains(detail, `"deadlock"`)) {
				detail = fmt.Sprintf("request %q: solo %s concurrent %s", reqs[i].doc, want[i], got[i])
			}
		}
		if len(got[i]) > 8 && got[i][:9] == `{"panic":` {
			panics++
		}
	}
	return
}

func c12InstallYield(seed int64) {
	var mu sync.Mutex
	r := rand.New(rand.NewSource(seed))
	ggql.VerifYield = func(site string) {
		switch site {
		case "assureType", "regField", "metaCheck":
			mu.Lock()
			k := r.Intn(10)
			mu.Unlock()
			switch {
			case k < 5:
				runtime.Gosched()
			case k < 7:
				time.Sleep(time.Duration(k) * time.Microsecond)
			}
		}
	}
}

func init() {
	props["C12"] = func(o *Out, rng *Rng, tier string) {
		c12InstallYield(int64(rng.U64() >> 1))
		defer func() { ggql.VerifYield = nil }()
		iters := 300
		if tier == "thorough" {
			iters = 6000
		}
		// deterministic witness of history dependence (D47): an interface-typed field on a cold root,
		// before and after another request has bound the concrete type
		{
			root := c12Root()
			r1 := canon(safeResolve(root, `{ top { name } }`, "", nil))
			safeResolve(root, `{ first { name } }`, "", nil)
			r2 := canon(safeResolve(root, `{ top { name } }`, "", nil))
			o.Count("class=history-dependence")
			o.Emit(Case{Term: N("c12hist"), Obs: N("obs", B(r1 == r2)),
				Meta: map[string]interface{}{"cold": r1, "afterOtherRequest": r2}, Nontrivial: true})
		}
		// (D111) a Go type bound by position only: no object type has its name, no @go, no RegisterType
		{
			mk := func() *ggql.Root {
				m := &c12ThingModel{Name: "n"}
				root := ggql.NewRoot(&c12PosSchema{Query: &c12PosQuery{Thing: m, Node: m}})
				if err := root.ParseString("interface Node { name: String }\ntype Thing implements Node { name: String }\ntype Query { thing: Thing node: Node }"); err != nil {
					panic(err)
				}
				return root
			}
			root := mk()
			r1 := canon(safeResolve(root, `{ node { __typename name } }`, "", nil))
			safeResolve(root, `{ thing { name } }`, "", nil)
			r2 := canon(safeResolve(root, `{ node { __typename name } }`, "", nil))
			o.Count("class=history-dependence-by-position")
			o.Emit(Case{Term: N("c12pos"), Obs: N("obs", B(r1 == r2)),
				Meta: map[string]interface{}{"cold": r1, "afterObjectPosition": r2}, Nontrivial: true})
		}
		deadlocks := 0
		for it := 0; it < iters; it++ {
			n := 2 + rng.Intn(15)
			if it%10 == 0 {
				n = 32 + rng.Intn(33)
			}
			if deadlocks >= 2 {
				break // each further iteration would cost another watchdog period; two are decisive
			}
			mm, pn, im, detail, tags := c12Iter(rng, n)
			if strings.Contains(detail, `"deadlock"`) {
				deadlocks++
			}
			o.Count(fmt.Sprintf("goroutines<=%d", ((n+7)/8)*8))
			for _, t := range tags {
				o.stats["req."+t]++
			}
			meta := map[string]interface{}{"goroutines": n, "requests": tags}
			if detail != "" {
				meta["detail"] = detail
			}
			o.Emit(Case{
				Term:       N("c12", I(int64(n))),
				Obs:        N("obs", I(int64(mm)), I(int64(pn)), B(im > 0)),
				Meta:       meta,
				Key:        fmt.Sprint(tags),
				Nontrivial: n >= 2,
			})
		}
	}
	// free-running stress for `go build -race`: prints a summary; the race detector reports on stderr
	props["C12race"] = func(o *Out, rng *Rng, tier string) {
		c12InstallYield(int64(rng.U64() >> 1))
		iters := 150
		if tier == "thorough" {
			iters = 2500
		}
		for it := 0; it < iters; it++ {
			c12Iter(rng, 2+rng.Intn(14))
		}
		fmt.Printf("RACE-STRESS C12 iterations=%d\n", iters)
	}
	props["C20race"] = func(o *Out, rng *Rng, tier string) {
		iters := 150
		if tier == "thorough" {
			iters = 2500
		}
		for it := 0; it < iters; it++ {
			c20Free(rng.Fork())
		}
		fmt.Printf("RACE-STRESS C20 iterations=%d\n", iters)
	}
}

// c20Free: publish / subscribe / unsubscribe from several goroutines with no scheduler; a watchdog
// turns a deadlock into a panic.  Checks the order-free guarantees on the logs.
func c20Free(rng *Rng) {
	var lmu sync.Mutex
	w := &c19World{msgs: map[int][]interface{}{}, fail: map[int]bool{}}
	_ = lmu
	root := ggql.NewRoot(&c19Root{w: &c19World{}})
	_ = root
	// a world whose log is mutex-protected
	fw := &freeWorld{}
	root = ggql.NewRoot(&freeRoot{w: fw})
	if err := root.ParseString(c19Schema); err != nil {
		panic(err)
	}
	_ = w
	nth := 3 + rng.Intn(6)
	var wg sync.WaitGroup
	done := make(chan struct{})
	for t := 0; t < nth; t++ {
		r := rng.Fork()
		wg.Add(1)
		go func() {
			defer wg.Done()
			for i := 0; i < 12; i++ {
				switch c := r.Intn(10); {
				case c < 3:
					root.ResolveString(`subscription { listen { v } }`, "", nil)
				case c < 8:
					_, _ = root.AddEvent("e1", &c19Event{base: 1, word: "w", depth: 1})
				default:
					root.Unsubscribe("e1")
				}
			}
		}()
	}
	go func() { wg.Wait(); close(done) }()
	select {
	case <-done:
	case <-time.After(30 * time.Second):
		panic("C20 free-running stress: no progress for 30 s (deadlock)")
	}
	fw.mu.Lock()
	defer fw.mu.Unlock()
	for id, n := range fw.cleaned {
		if n > 1 {
			panic(fmt.Sprintf("C20: subscriber %d cleaned %d times", id, n))
		}
	}
}

type freeWorld struct {
	mu      sync.Mutex
	next    int
	cleaned map[int]int
	sent    map[int]int
}

type freeSub struct {
	w  *freeWorld
	id int
}

func (s *freeSub) Send(v interface{}) error {
	s.w.mu.Lock()
	defer s.w.mu.Unlock()
	if s.w.sent == nil {
		s.w.sent = map[int]int{}
	}
	s.w.sent[s.id]++
	if s.w.cleaned[s.id] > 0 {
		// delivered after clean-up: allowed only if the deliver block started before the clean-up;
		// the scheduled harness checks the ordered version, here we only count
	}
	if s.w.sent[s.id]%3 == 0 {
		return fmt.Errorf("fail")
	}
	return nil
}
func (s *freeSub) Match(string) bool { return true }
func (s *freeSub) Unsubscribe() {
	s.w.mu.Lock()
	defer s.w.mu.Unlock()
	if s.w.cleaned == nil {
		s.w.cleaned = map[int]int{}
	}
	s.w.cleaned[s.id]++
}

type freeRoot struct{ w *freeWorld }

func (r *freeRoot) Resolve(f *ggql.Field, args map[string]interface{}) (interface{}, error) {
	switch f.Name {
	case "query", "subscription":
		return r, nil
	case "listen":
		r.w.mu.Lock()
		id := r.w.next
		r.w.next++
		r.w.mu.Unlock()
		return ggql.NewSubscription(&freeSub{w: r.w, id: id}, f, args), nil
	}
	return nil, nil
}

// ---- many object types first bound at the same moment ---------------------------------------------------
//
// A cold reflection root with eight object types, each reached by its own request: with eight goroutines every
// one of them makes a first-use binding of a different type while the others make theirs (lock order between the
// per-object mutexes; the watchdog of c12Iter turns a cycle into an observation).

type C12W0 struct{ Name string }
type C12W1 struct{ Name string }
type C12W2 struct{ Name string }
type C12W3 struct{ Name string }
type C12W4 struct{ Name string }
type C12W5 struct{ Name string }
type C12W6 struct{ Name string }
type C12W7 struct{ Name string }

func (w *C12W0) Tag() string { return "0" + w.Name }
func (w *C12W1) Tag() string { return "1" + w.Name }
func (w *C12W2) Tag() string { return "2" + w.Name }
func (w *C12W3) Tag() string { return "3" + w.Name }
func (w *C12W4) Tag() string { return "4" + w.Name }
func (w *C12W5) Tag() string { return "5" + w.Name }
func (w *C12W6) Tag() string { return "6" + w.Name }
func (w *C12W7) Tag() string { return "7" + w.Name }

type C12WQuery struct {
	W0  *C12W0
	W1  *C12W1
	W2  *C12W2
	W3  *C12W3
	W4  *C12W4
	W5  *C12W5
	W6  *C12W6
	W7  *C12W7
	Any []interface{}
}
type C12WSchema struct{ Query *C12WQuery }

func c12WideRoot() *ggql.Root {
	q := &C12WQuery{W0: &C12W0{"a"}, W1: &C12W1{"b"}, W2: &C12W2{"c"}, W3: &C12W3{"d"}, W4: &C12W4{"e"}, W5: &C12W5{"f"}, W6: &C12W6{"g"}, W7: &C12W7{"h"}}
	q.Any = []interface{}{q.W7, q.W3, q.W0}
	root := ggql.NewRoot(&C12WSchema{Query: q})
	var b strings.Builder
	b.WriteString("interface Tagged { tag: String }\ntype Query {")
	for i := 0; i < 8; i++ {
		fmt.Fprintf(&b, " w%d: C12W%d", i, i)
	}
	b.WriteString(" any: [Tagged] }\n")
	for i := 0; i < 8; i++ {
		fmt.Fprintf(&b, "type C12W%d implements Tagged { name: String tag: String }\n", i)
	}
	if err := root.ParseString(b.String()); err != nil {
		panic(err)
	}
	return root
}

var c12WideReqs = func() []c12Req {
	var out []c12Req
	for i := 0; i < 8; i++ {
		out = append(out, c12Req{fmt.Sprintf("{ w%d { name tag } }", i), nil, fmt.Sprintf("wide%d", i)})
	}
	return append(out, c12Req{"{ any { __typename tag } }", nil, "wide-iface"})
}()

type c12ThingModel struct{ Name string }
type c12PosQuery struct {
	Thing *c12ThingModel
	Node  interface{}
}
type c12PosSchema struct{ Query *c12PosQuery }
